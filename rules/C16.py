"""C16 — JUnit report: escaping completeness (TAINT), escaper table and order, element balance of the
statically assembled document skeleton, counters, file name. DESIGN.md section 4, C16."""
import itertools
import re
import xml.etree.ElementTree as ET
from .common import *
from cpv.graph import field_writers
from cpv.ceval import Evaluator, Unknown

CLS = "JUnitTestOutput"
SAFE_SOURCES = {"GetPlatformSpecificTimeString": "time stamp produced by the platform (digits, '-', ':', 'T')"}
ENTITY = {"&": "&amp;", "\"": "&quot;", "<": "&lt;", ">": "&gt;", "\r": "&#13;", "\n": "&#10;"}
FNAME_FORBIDDEN = set("/\\:*?\"<>|")
FMT = re.compile(r"%[-+ #0]*\d*(?:\.\d+)?(?:hh|h|ll|l|z|j|t)?([diouxXscp%])")


def fmt_specs(s):
    return [m.group(1) for m in FMT.finditer(s) if m.group(1) != "%"]


class Taint:
    def __init__(self, prog, f):
        self.prog, self.f = prog, f
        self.inits = local_inits(f)
        self.reassigned = set()
        for l, r, n in assignments(f):
            self.reassigned.add(l)
        for c in f.calls():
            if c["k"] == "CXXOperatorCallExpr" and c.get("callee", {}).get("qn", "").split("::")[-1] in ("operator=", "operator+="):
                a = f.args(c)
                if a:
                    self.reassigned.add(render(f, a[0]))

    def safe(self, n, depth=0):
        """returns (ok, reason)"""
        f, prog = self.f, self.prog
        n = f.strip(n)
        if n is None or depth > 8:
            return False, "unknown expression"
        k = n["k"]
        if k == "StringLiteral":
            return True, "literal"
        if k == "ConditionalOperator":
            a = self.safe(f.node(n["then"]), depth + 1)
            b = self.safe(f.node(n["else"]), depth + 1)
            return (a[0] and b[0]), "conditional of (%s, %s)" % (a[1], b[1])
        if k in ("CXXConstructExpr", "CXXTemporaryObjectExpr"):
            a = f.args(n)
            if len(a) == 1:
                return self.safe(a[0], depth + 1)
            return False, "constructed from %d arguments" % len(a)
        if k in ("CXXMemberCallExpr", "CallExpr", "CXXOperatorCallExpr"):
            nm = prog.callee_name(f, n) or ""
            if nm == "SimpleString::asCharString":
                return self.safe(f.node(n.get("obj")), depth + 1)
            if nm == CLS + "::encodeXmlText":
                return True, "encodeXmlText(...)"
            if nm in SAFE_SOURCES:
                return True, "safe source " + nm
            if nm == "StringFromFormat":
                ok, why = self.format_ok(n)
                return ok, "StringFromFormat: " + why
            return False, "result of %s is not sanitised" % nm
        if k == "DeclRefExpr" and n["name"] in self.inits:
            if n["name"] in self.reassigned:
                return False, "local %s is reassigned" % n["name"]
            return self.safe(self.inits[n["name"]], depth + 1)
        return False, "%s is not sanitised" % render(f, n)

    def format_ok(self, call):
        f = self.f
        a = f.args(call)
        lit = f.strip(a[0]) if a else None
        if lit is None or lit["k"] != "StringLiteral":
            return False, "format is not a literal"
        specs = fmt_specs(lit["v"])
        if len(specs) != len(a) - 1:
            return False, "format/argument count mismatch"
        bad = []
        for i, (sp, arg) in enumerate(zip(specs, a[1:])):
            if sp == "s":
                ok, why = self.safe(arg, 1)
                if not ok:
                    bad.append("%%s #%d %s: %s" % (i + 1, render(f, arg), why))
        return (not bad), ("; ".join(bad) if bad else "all %s arguments sanitised")


def literal_text(prog, f, call):
    """text skeleton a writeToFile call contributes: literals verbatim, sanitised values as 'V', numbers as '0'"""
    a = f.args(call)
    x = f.strip(a[0]) if a else None
    inits = local_inits(f)
    seen = 0
    while x is not None and seen < 6:
        seen += 1
        if x["k"] == "StringLiteral":
            return x["v"]
        if x["k"] in ("CXXConstructExpr", "CXXTemporaryObjectExpr") and len(f.args(x)) == 1:
            x = f.strip(f.args(x)[0])
            continue
        if x["k"] == "CXXMemberCallExpr" and prog.callee_name(f, x) == "SimpleString::asCharString":
            x = f.strip(f.node(x.get("obj")))
            continue
        if x["k"] == "DeclRefExpr" and x["name"] in inits:
            x = f.strip(inits[x["name"]])
            continue
        if x["k"] == "CallExpr" and prog.callee_name(f, x) == "StringFromFormat":
            lit = f.strip(f.args(x)[0])
            if lit is not None and lit["k"] == "StringLiteral":
                return FMT.sub(lambda m: "%" if m.group(1) == "%" else ("V" if m.group(1) == "s" else "0"), lit["v"])
            return None
        if x["k"] in ("CXXMemberCallExpr", "CallExpr"):
            return "V"
        return None
    return None


def check(ctx, run):
    prog = ctx.program()
    run.assume("vsnprintf-style formatting copies %s arguments verbatim and renders %d as digits")
    run.not_decided.append("acceptance by a conforming XML parser for arbitrary text (needs a parser run on concrete output: another technique family); here only the literal skeleton is parsed and every inserted value is proved to be entity-encoded")
    run.rule("R1", "TAINT: every string that reaches writeToFile is a literal, encodeXmlText(...) or a format whose every %s argument is one of those (safe sources enumerated)", floor=14)
    run.rule("R2", "escaper TABLE/ORDER: encodeXmlText replaces & \" < > CR LF by the right entities and replaces & before anything whose replacement contains &", floor=8)
    run.rule("R3", "element balance: writeTestGroupToFile folded over a heap model of collected results (0..3 test cases, passed / failed / ignored / both, names, files, messages and output full of XML special characters): the text handed to writeToFile between one open and one close is well-formed XML, has the testsuite > properties, testcase*, system-out, system-err structure, and every model value reads back unchanged from the parsed attributes; failure element iff failed, skipped iff ignored and not failed", floor=8)
    run.rule("R4", "counts: testCount_++ once per started test, failureCount_++ only together with storing the first failure, both reset after the group is written; summary attributes print their own counters", floor=7)
    run.rule("R5", "file name derives from encodeFileName whose forbidden set covers / \\ : * ? \" < > |", floor=5)

    methods = {f.name: f for f in prog.methods_of(CLS)}
    for f in methods.values():
        run.analysed(f)

    # ---------------- R1 ----------------------------------------------------
    fputs_callers = sorted({f.qn for f in prog.functions.values() for c in f.calls() if prog.callee_name(f, c) == "PlatformSpecificFPuts" and f.cls == CLS})
    run.ob("R1", "only writeToFile writes to the file", "src/CppUTest/JUnitTestOutput.cpp:" + CLS, fputs_callers == [CLS + "::writeToFile"], witness=fputs_callers)
    for f in methods.values():
        t = Taint(prog, f)
        for c in calls_to(prog, f, CLS + "::writeToFile"):
            a = f.args(c)
            ok, why = t.safe(a[0])
            run.ob("R1", "writeToFile(%s)" % short(render(f, a[0]), 70), f.site, ok, witness=why,
                   what="" if ok else "unescaped text reaches the XML file: " + why)
    # ---------------- R2 ----------------------------------------------------
    enc = prog.fn(CLS + "::encodeXmlText")
    run.analysed(enc)

    def mutable_replace(ev_, obj, frm, to):
        key = ev_.last_obj_key
        v = ev_.env.get(key)
        conv = lambda x: chr(x & 0xFF) if isinstance(x, int) else (x[1] if isinstance(x, tuple) and x[0] == "str" else None)
        f_, t_ = conv(frm), conv(to)
        if not (isinstance(v, tuple) and v[0] == "str") or f_ is None or t_ is None or f_ == "":
            return None
        ev_.env[key] = ("str", v[1].replace(f_, t_))
        return 0
    mutable_replace.wants_ev = True

    def fold_encode_xml(text):
        ev = Evaluator(prog, enc, env={enc.params[0]["name"]: ("str", text)}, calls=string_hooks({"SimpleString::replace": mutable_replace}))
        ev.pass_object = True
        ev.run_blocks(enc.entry, max_steps=3000)
        r = getattr(ev, "ret", None)
        return r[1] if isinstance(r, tuple) and r[0] == "str" else r

    def xml_escape(t):
        t = t.replace("&", "&amp;")
        for ch, ent in ENTITY.items():
            if ch != "&":
                t = t.replace(ch, ent)
        return t
    try:
        for ch, ent in ENTITY.items():
            got = fold_encode_xml("x%sy" % ch)
            run.ob("R2", "entity for %r" % ch, enc.site, got == "x%sy" % ent, witness={"found": got, "required": "x%sy" % ent},
                   what="" if got == "x%sy" % ent else "character %r is not replaced by %s" % (ch, ent))
        bad = None
        for text in ("a&b<c>d\"e\r\nf", "&amp;", "<<>>", "", "plain text", "&lt;&quot;", "it's", "\r\r\n&"):
            got = fold_encode_xml(text)
            if got != xml_escape(text) and bad is None:
                bad = "encodeXmlText(%r) folds to %r, expected %r" % (text, got, xml_escape(text))
        run.ob("R2", "encodeXmlText folded on 8 texts: every special character escaped exactly once (& before anything whose replacement contains &), the result is an escaped copy of the argument", enc.site, bad is None,
               witness=bad or "8 texts", what="" if bad is None else "an entity produced earlier would be escaped again, or a character is left raw: " + bad)
    except Unknown as u:
        run.broke("C16.R2: encodeXmlText cannot be folded: %s" % u)
    # the escaper relies on SimpleString::replace: its own folds above use a reference model of replace, so replace itself
    # is folded here on texts made of the characters the escaper replaces (doubled, adjacent, at both ends)
    from .C13 import replace_rule
    replace_rule(prog, run, "R2", alphabet="&<x", patterns=("&", "<", "&&", "<&"), replacements=("&amp;", "&lt;", ""), maxlen=4)
    for k_ in range(1):
        run.ob("R2", "the escaper takes its argument by value semantics (the caller's string is not modified)", enc.site, "const" in enc.params[0]["ct"], witness=enc.params[0]["ct"])

    # ---------------- R3 ----------------------------------------------------
    # the whole group file folded over a heap model of collected results; the oracle is an XML parser on the text handed
    # to writeToFile and the model values read back from the parsed attributes
    import xml.etree.ElementTree as ET
    grp = prog.fn(CLS + "::writeTestGroupToFile")
    run.analysed(grp)

    def fold_document(group, package, stdout, cases):
        IMPL = 3000
        env = {"impl_": IMPL, "@3000.package_": ("str", package), "@3000.stdOutput_": ("str", stdout), "@3000.results_.group_": ("str", group),
               "@3000.results_.testCount_": len(cases), "@3000.results_.failureCount_": sum(1 for c in cases if c.get("failure")), "@3000.results_.totalCheckCount_": 0,
               "@3000.results_.groupExecTime_": 1234, "@3000.results_.startTime_": 5}
        addr = [4000 + 100 * i for i in range(len(cases))]
        env["@3000.results_.head_"] = addr[0] if addr else 0
        env["@3000.results_.tail_"] = addr[-1] if addr else 0
        fails = {}
        for i, (a_, c) in enumerate(zip(addr, cases)):
            fa = 7000 + 10 * i if c.get("failure") else 0
            if fa:
                fails[fa] = c["failure"]
            env.update({"@%d.name_" % a_: ("str", c["name"]), "@%d.file_" % a_: ("str", c["file"]), "@%d.lineNumber_" % a_: c["line"], "@%d.checkCount_" % a_: 3 * (i + 1), "@%d.execTime_" % a_: 1001 * (i + 1),
                        "@%d.failure_" % a_: fa, "@%d.ignored_" % a_: 1 if c.get("ignored") else 0, "@%d.next_" % a_: addr[i + 1] if i + 1 < len(addr) else 0})
        out, files = [], []

        def wtf(ev_, *a_):
            out.append(ev_.cstring(a_[-1]))
            files.append("write")
            return 0
        wtf.wants_ev = True
        hooks = string_hooks({"SimpleString::replace": mutable_replace, CLS + "::writeToFile": wtf, CLS + "::openFileForWrite": lambda *a_: (files.append("open"), 0)[1], CLS + "::closeFile": lambda *a_: (files.append("close"), 0)[1],
                              CLS + "::createFileName": lambda *a_: ("str", "cpputest_x.xml"), "GetPlatformSpecificTimeString": lambda *a_: ("str", "2024-01-01T00:00:00"),
                              "TestFailure::getFileName": lambda o, *a_: ("str", fails[o][0]) if o in fails else None, "TestFailure::getFailureLineNumber": lambda o, *a_: fails[o][1] if o in fails else None,
                              "TestFailure::getMessage": lambda o, *a_: ("str", fails[o][2]) if o in fails else None})
        ev = Evaluator(prog, grp, env=env, calls=hooks)
        ev.heap_mode = True
        ev.pass_object = True
        ev.inline = {g.qn for g in prog.functions.values() if g.qn.startswith(CLS + "::")} - set(hooks)
        ev.run_blocks(grp.entry, max_steps=30000)
        return "".join(out), files
    NASTY = 'a<b>&"c\'d'
    plain = {"name": "t1", "file": "dir/f.cpp", "line": 7}
    failed = {"name": "t2", "file": "f2.cpp", "line": 9, "failure": ("ff.cpp", 12, "expected <1>\n\tbut was  <2> & \"x\"")}
    ignored = {"name": "t3", "file": "f3.cpp", "line": 1, "ignored": 1}
    both = {"name": "t4", "file": "f4.cpp", "line": 2, "ignored": 1, "failure": ("g.cpp", 3, "m")}
    nasty = {"name": NASTY, "file": "d&<>\".cpp", "line": 5, "failure": ("x<y>.cpp", 44, NASTY + "\r\n&amp;")}
    scenarios = [("grp", "", "", []), ("grp", "", "", [plain]), ("grp", "pkg", "", [plain, failed, ignored]), ("grp", "", "some output\n", [both, plain]),
                 ('g<1>&"x"', 'p&<k>', "out <b> & \"q\"\r\n", [nasty, ignored, nasty]), ("grp", "pkg", "]]> &#10; &amp;", [failed, failed]),
                 ("it's", "", "'single' \"double\"", [ignored]), ("grp", "a.b", "<?xml version=\"1.0\"?><x/>", [ignored, both, nasty]), ("G", "", "line1\nline2\n", [plain, plain, plain])]
    for group, package, stdout, cases in scenarios:
        inst = "group file folded: group %r, package %r, %d test cases (%s)" % (group, package, len(cases), ", ".join(("failed+ignored" if c.get("failure") and c.get("ignored") else "failed" if c.get("failure") else "ignored" if c.get("ignored") else "passed") for c in cases))
        try:
            doc, files = fold_document(group, package, stdout, cases)
        except Unknown as u:
            raise AnalysisBroken("C16.R3: writeTestGroupToFile cannot be folded over the result model: %s" % u)
        why = []
        if files[:1] != ["open"] or files[-1:] != ["close"] or files.count("open") != 1 or files.count("close") != 1:
            why.append("the file is not opened once before and closed once after all writes (%s...)" % files[:3])
        body = doc.split("?>", 1)[1] if doc.startswith("<?xml") and "?>" in doc else None
        root = None
        if body is None:
            why.append("the document does not start with the XML declaration")
        else:
            try:
                root = ET.fromstring(body)
            except ET.ParseError as e:
                why.append("the document is not well-formed XML: %s" % e)
        if root is not None:
            kids = list(root)
            if root.tag != "testsuite" or [k.tag for k in kids] != ["properties"] + ["testcase"] * len(cases) + ["system-out", "system-err"]:
                why.append("element structure is %s > %s" % (root.tag, [k.tag for k in kids]))
            else:
                nfail = sum(1 for c in cases if c.get("failure"))
                if (root.get("name"), root.get("tests"), root.get("failures")) != (group, str(len(cases)), str(nfail)):
                    why.append("testsuite attributes read back as name=%r tests=%s failures=%s; the model has %r, %d, %d" % (root.get("name"), root.get("tests"), root.get("failures"), group, len(cases), nfail))
                for c, el in zip(cases, kids[1:1 + len(cases)]):
                    want = {"classname": (package + "." if package else "") + group, "name": c["name"], "file": c["file"], "line": str(c["line"])}
                    got = {k_: el.get(k_) for k_ in want}
                    if got != want:
                        why.append("testcase attributes read back as %s; the model has %s" % (got, want))
                    sub = [x.tag for x in el]
                    wsub = ["failure"] if c.get("failure") else (["skipped"] if c.get("ignored") else [])
                    if sub != wsub:
                        why.append("test case %r has children %s, expected %s (failure iff failed, skipped iff ignored and not failed)" % (c["name"], sub, wsub))
                    elif c.get("failure"):
                        f_ = c["failure"]
                        msg = el[0].get("message")
                        # (a literal TAB in an attribute value is normalised to a blank by every conforming parser; the
                        # property speaks of the characters with XML meaning: & < > " ' and line breaks)
                        if msg != ("%s:%d: %s" % f_).replace("\t", " "):
                            why.append("failure message reads back as %r; the model has %r" % (msg, "%s:%d: %s" % f_))
                so_ = kids[-2].text or ""
                if so_ != stdout.replace("\r\n", "\n").replace("\r", "\n") and so_ != stdout:
                    why.append("system-out reads back as %r; the collected output is %r" % (so_, stdout))
        run.ob("R3", inst, grp.site, not why, witness=why or short(doc.replace("\n", "\\n"), 300), what="; ".join(why))

    # ---------------- R4 ----------------------------------------------------
    st = methods["printCurrentTestStarted"]
    # folded over a heap model: a group with 0 / 1 / 2 case nodes already, a test that will run / is ignored
    IMPL = 3000
    for existing, will_run in itertools.product((0, 1, 2), (1, 0)):
        nodes = [5000 + 100 * k for k in range(existing)]
        env = {"impl_": IMPL, "@%d.results_.testCount_" % IMPL: existing, "@%d.results_.head_" % IMPL: nodes[0] if nodes else 0, "@%d.results_.tail_" % IMPL: nodes[-1] if nodes else 0,
               st.params[0]["name"]: 77}
        for k, nd in enumerate(nodes):
            env["@%d.next_" % nd] = nodes[k + 1] if k + 1 < len(nodes) else 0
        hooks = string_hooks({"UtestShell::getGroup": lambda *a_: ("str", "grp"), "UtestShell::getName": lambda *a_: ("str", "tname"), "UtestShell::getFile": lambda *a_: ("str", "file.cpp"),
                              "UtestShell::getLineNumber": lambda *a_: 42, "UtestShell::willRun": lambda *a_, will_run=will_run: will_run, "GetPlatformSpecificTimeInMillis": lambda *a_: 1000})
        ev = Evaluator(prog, st, env=env, calls=hooks)
        ev.heap_mode = True
        ev.pass_object = True
        why = ""
        try:
            ev.run_blocks(st.entry, max_steps=600)
            e = ev.env
            news = [t[1][0] for t in ev.trace if t[0].startswith("new JUnitTestCaseResultNode")]
            chain_, cur = [], e.get("@%d.results_.head_" % IMPL)
            while cur and len(chain_) < 6:
                chain_.append(cur)
                cur = e.get("@%d.next_" % cur, 0)
            if e.get("@%d.results_.testCount_" % IMPL) != existing + 1:
                why = "testCount_ goes from %d to %s" % (existing, e.get("@%d.results_.testCount_" % IMPL))
            elif len(news) != 1 or chain_ != nodes + news or e.get("@%d.results_.tail_" % IMPL) != news[0]:
                why = "the case list becomes %s with tail %s (new nodes %s); expected the old list plus one new node at the tail" % (chain_, e.get("@%d.results_.tail_" % IMPL), news)
            else:
                nn = news[0]
                got = (e.get("@%d.name_" % nn), e.get("@%d.file_" % nn), e.get("@%d.lineNumber_" % nn), e.get("@%d.ignored_" % nn))
                if got[:3] != (("str", "tname"), ("str", "file.cpp"), 42) or bool(got[3]) != (not will_run):
                    why = "the new node holds (name, file, line, ignored) = %s; expected the started test's (tname, file.cpp, 42, %s)" % (got, not will_run)
                elif e.get("@%d.results_.group_" % IMPL) != ("str", "grp"):
                    why = "the suite's group name is %s" % (e.get("@%d.results_.group_" % IMPL),)
        except Unknown as u:
            run.broke("C16.R4: printCurrentTestStarted cannot be folded: %s" % u)
            continue
        run.ob("R4", "printCurrentTestStarted folded [%d cases so far, test %s]: testCount_ +1, one new case node appended at the tail and filled with the test's name/file/line/ignored" % (existing, "runs" if will_run else "is ignored"), st.site, not why,
               witness=why or "ok", what=why)
    pf = methods["printFailure"]
    for p in enumerate_paths(pf):
        inc = [d for d in deltas_on_path(pf, p, "failureCount_") if d == 1]
        sto = [l for l, r, n in assignments(pf, p) if l.endswith("->failure_")]
        val = p.val()
        first = [v for k, v in val.items() if k.endswith("->failure_")]
        # atom `x->failure_` true means non-null
        want = (first == [False])
        ok = (len(inc) == (1 if want else 0)) and (len(sto) == (1 if want else 0))
        run.ob("R4", "failureCount_++ iff first failure of the test is stored [%s]" % p.describe(pf), pf.site, ok, witness={"increments": len(inc), "stores": sto})
    rs = methods["resetTestGroupResult"]
    z = [(l, render(rs, r)) for l, r, n in assignments(rs)]
    ok = any(l.endswith("testCount_") and r == "0" for l, r in z) and any(l.endswith("failureCount_") and r == "0" for l, r in z)
    run.ob("R4", "both counters reset with the group", rs.site, ok, witness=z)
    ge = methods["printCurrentGroupEnded"]
    for p in enumerate_paths(ge):
        s = [(prog.callee_name(ge, c) or "").split("::")[-1] for c in path_calls(prog, ge, p)]
        s = [x for x in s if x in ("writeTestGroupToFile", "resetTestGroupResult")]
        run.ob("R4", "group end writes the file then resets", ge.site, s == ["writeTestGroupToFile", "resetTestGroupResult"], witness=s)
    # one file per group needs one group-end notification after the last test of every group, whatever is filtered out: the registry
    # run folded over every list of up to 4 tests x selection (shared with C02.R4 / C20.R4)
    from .C02 import registry_rules
    registry_rules(prog, run, "R4", "groups")
    sm = methods["writeTestSuiteSummary"]
    for c in calls_to(prog, sm, "StringFromFormat"):
        a = sm.args(c)
        lit = sm.strip(a[0])
        if lit is None or lit["k"] != "StringLiteral":
            run.ob("R4", "summary format literal", sm.site, False, what="format is not a literal")
            continue
        attrs = re.findall(r"(\w+)=\\?\"(%[^\"]*?)\\?\"", lit["v"])
        specs = fmt_specs(lit["v"])
        # map attribute -> argument(s)
        idx = 0
        amap = {}
        for name, val in re.findall(r"(\w+)=\"([^\"]*)\"", lit["v"]):
            n = len(fmt_specs(val))
            amap[name] = [render(sm, x) for x in a[1 + idx:1 + idx + n]]
            idx += n
        ok = any("failureCount_" in x for x in amap.get("failures", [])) and any("testCount_" in x for x in amap.get("tests", [])) and any("group_" in x for x in amap.get("name", []))
        run.ob("R4", "summary attributes failures/tests/name print failureCount_/testCount_/group_", sm.site, ok, witness=amap)

    # ---------------- R5 ----------------------------------------------------
    for c in calls_to(prog, grp, CLS + "::openFileForWrite"):
        a = render(grp, grp.args(c)[0])
        run.ob("R5", "file is opened under createFileName(group)", grp.site, a.startswith("createFileName("), witness=a)
    of = methods["openFileForWrite"]
    modes = []
    for c in calls_to(prog, of, "PlatformSpecificFOpen"):
        a = of.args(c)
        m = of.strip(a[1]) if len(a) == 2 else None
        modes.append(m["v"] if m is not None and m["k"] == "StringLiteral" else render(of, a[1]) if len(a) == 2 else None)
    ok = len(modes) == 1 and isinstance(modes[0], str) and modes[0].startswith("w")
    run.ob("R5", "the report file is created/truncated (fopen mode w): one document per file", of.site, ok, witness=modes,
           what="" if ok else "a second run would append a second document to the same file")
    cf = methods["createFileName"]
    rets = [render(cf, cf.node(n.get("value"))) for n in cf.walk() if n["k"] == "ReturnStmt"]
    ok = len(rets) == 1 and rets[0].startswith("(encodeFileName(") and "\".xml\"" in rets[0]
    run.ob("R5", "createFileName returns encodeFileName(...) + \".xml\"", cf.site, ok, witness=rets)
    ef = methods["encodeFileName"]
    lits = [n["v"] for n in ef.walk() if n["k"] == "StringLiteral"]
    forb = set("".join(lits))
    miss = sorted(FNAME_FORBIDDEN - forb)
    run.ob("R5", "forbidden set covers / \\ : * ? \" < > |", ef.site, not miss, witness="".join(sorted(forb)), what="" if not miss else "not replaced: %s" % miss)
    def fold_encode(text):
        def repl(ev_, obj, frm, to):
            key = ev_.last_obj_key
            v = ev_.env.get(key)
            if not (isinstance(v, tuple) and v[0] == "str" and isinstance(frm, int) and isinstance(to, int)):
                return None
            ev_.env[key] = ("str", v[1].replace(chr(frm & 0xFF), chr(to & 0xFF)))
            return 0
        repl.wants_ev = True
        ev = Evaluator(prog, ef, env={ef.params[0]["name"]: ("str", text)}, calls=string_hooks({"SimpleString::replace": repl}))
        ev.pass_object = True
        ev.run_blocks(ef.entry, max_steps=3000)
        return getattr(ev, "ret", None)
    bad = None
    try:
        for text in ("plain_name-1.cpp", "a/b\\c:d*e?f\"g<h>i|j", "////", "", "x%y", "dir/sub/test name.c"):
            got = fold_encode(text)
            want_min = "".join("_" if ch in FNAME_FORBIDDEN else ch for ch in text)
            gt = got[1] if isinstance(got, tuple) and got[0] == "str" else None
            # every forbidden character replaced; characters outside the implementation's own set untouched
            okc = gt is not None and len(gt) == len(text) and all((g == "_" if c in FNAME_FORBIDDEN else (g == c or (g == "_" and c in forb))) for c, g in zip(text, gt))
            if not okc and bad is None:
                bad = "encodeFileName(%r) folds to %r, expected %r" % (text, gt if gt is not None else got, want_min)
    except Unknown as u:
        run.broke("C16.R5: encodeFileName cannot be folded: %s" % u)
    run.ob("R5", "encodeFileName folded: every forbidden character is replaced by '_' in the returned copy, other characters are kept", ef.site, bad is None, witness=bad or "6 names", what=bad or "")

"""C04 — leak accounting: necessary conditions of exactness decided statically (bucket agreement/coverage,
isInPeriod table, list surgery folded over all short lists, bookkeeping pairing, stamping, totals, routing).
The equality of the table with the true outstanding set over all histories is NOT decided. DESIGN.md section 4, C04."""
import itertools
import re
from .common import *
from cpv.ceval import Evaluator, Unknown

DET, LST, TAB = "MemoryLeakDetector", "MemoryLeakDetectorList", "MemoryLeakDetectorTable"


def list_env(n, fields):
    """heap with nodes 1..n chained by next_; fields: name -> [values per node]"""
    env = {"head_": 1 if n else 0}
    for k in range(1, n + 1):
        env["@%d.next_" % k] = k + 1 if k < n else 0
        for fn, vals in fields.items():
            env["@%d.%s" % (k, fn)] = vals[k - 1]
    return env


def chain(env):
    out = []
    k = env.get("head_", 0)
    seen = 0
    while k and seen < 50:
        out.append(k)
        k = env.get("@%d.next_" % k, 0)
        seen += 1
    return out


def stamping_rule(prog, run, rid):
    """R6 (shared with C07): every new record is stamped with the detector's current period / stage / sequence number and
    the caller's size, allocator and location. Decided on the entry points (allocMemory and reallocMemory, every member of
    the detector and the record initialiser inlined) folded over a heap model with two valuations that differ in every
    component, both bookkeeping layouts: which private helper stores the record, and how it gets its values, is free."""
    am = [f for f in prog.fns(DET + "::allocMemory") if len(f.params) == 5][0]
    rm = prog.fn(DET + "::reallocMemory")
    for f in (am, rm):
        run.analysed(f)
    DINL = {g.qn for g in prog.functions.values() if g.qn.startswith(DET + "::")} | {"MemoryLeakDetectorNode::init", "calculateVoidPointerAlignedSize"}
    guard = [e["v"] for en in prog.enums.values() for e in en["enumerators"] if e["name"] == "memory_corruption_buffer_size"]
    if not guard:
        raise AnalysisBroken("memory_corruption_buffer_size not found")
    M, N, OLD, OLDNODE = 70000, 90000, 50000, 6000
    for f, realloc in ((am, False), (rm, True)):
        bad, got_all = {}, {}
        seq_ok, guard_ok, added_ok = True, True, True
        from .shared import detector_state, detector_reads
        per_ = {e["name"]: e["v"] for en in prog.enums.values() for e in en["enumerators"] if e["name"].startswith("mem_leak_period_")}
        # two detectors that differ in every component, built by the detector's own constructor and public operations
        WORLDS = (((9000, 24, 111000, 77), [("startChecking", []), ("increaseAllocationStage", []), ("increaseAllocationStage", [])], per_["mem_leak_period_checking"]),
                  ((9500, 1, 222000, 5), [("enable", []), ("increaseAllocationStage", [])], per_["mem_leak_period_enabled"]))
        for sep in (0, 1):
            for (alloc, size, file_, line), steps_, period in WORLDS:
                st0 = detector_state(prog, steps_)
                seqno, stage = detector_reads(prog, st0)
                pn = [q["name"] for q in f.params]
                env = dict(st0)
                env.update(dict(zip(pn, (alloc, OLD, size, file_, line, sep) if realloc else (alloc, size, file_, line, sep))))
                if realloc:
                    # the record of the block that is reallocated: made earlier, in another period and stage, at another place; larger
                    # than the new size in one world (a shrinking realloc), smaller in the other
                    env.update({"@%d.memory_" % OLDNODE: OLD, "@%d.size_" % OLDNODE: 1000 if size < 10 else 3, "@%d.allocator_" % OLDNODE: alloc, "@%d.number_" % OLDNODE: 1,
                                "@%d.period_" % OLDNODE: per_["mem_leak_period_disabled"], "@%d.allocation_stage_" % OLDNODE: 0, "@%d.file_" % OLDNODE: 333000, "@%d.line_" % OLDNODE: 9, "@%d.next_" % OLDNODE: 0})
                added, guards = [], []
                ev = Evaluator(prog, f, env=env, calls={
                    "TestMemoryAllocator::alloc_memory": lambda *a_: M, "PlatformSpecificRealloc": lambda *a_: M, "TestMemoryAllocator::allocMemoryLeakNode": lambda *a_: N,
                    "TestMemoryAllocator::free_memory": lambda *a_: 0, "TestMemoryAllocator::freeMemoryLeakNode": lambda *a_: 0,
                    TAB + "::addNewNode": lambda *a_: (added.append(a_[-1]), 0)[1], TAB + "::removeNode": lambda *a_: OLDNODE,
                    "TestMemoryAllocator::actualAllocator": lambda o=None, *a_: o, DET + "::validMemoryCorruptionInformation": lambda *a_: 1, DET + "::matchingAllocation": lambda *a_: 1,
                    DET + "::addMemoryCorruptionInformation": lambda *a_: (guards.append(a_[-1]), 0)[1], DET + "::checkForCorruption": lambda *a_: 0})
                ev.heap_mode = True
                ev.pass_object = True
                ev.inline = DINL - set(ev.calls)
                ev.optional_stubs = {DET + "::addMemoryCorruptionInformation", DET + "::checkForCorruption", "TestMemoryAllocator::actualAllocator", DET + "::validMemoryCorruptionInformation", DET + "::matchingAllocation"}
                try:
                    ev.run_blocks(f.entry, max_steps=3000)
                except Unknown as u:
                    run.broke("%s: %s cannot be folded: %s" % (rid, f.qn, u))
                    return
                node = added[0] if len(added) == 1 else None
                got = {k[len("@%s." % node):]: v for k, v in ev.env.items() if node is not None and k.startswith("@%s." % node)}
                want = {"memory_": M, "number_": seqno, "size_": size, "allocator_": alloc, "period_": period, "allocation_stage_": stage, "file_": file_, "line_": line}
                bad.update({k: (got.get(k), v) for k, v in want.items() if got.get(k) != v})
                got_all = got
                st1 = {k_: v_ for k_, v_ in ev.env.items() if k_ in st0}
                seq_ok = seq_ok and detector_reads(prog, st1)[0] == seqno + 1
                # (the guard writer as a stub, or - when it is no member any more and was inlined - its stores behind the block)
                direct = sorted(k_ for k_, v_ in ev.stores if re.match(r"^@%d\[\d+\]$" % (M + size), k_))
                guard_ok = guard_ok and (guards == [M + size] or (not guards and direct == sorted("@%d[%d]" % (M + size, j) for j in range(guard[0]))))
                added_ok = added_ok and len(added) == 1
        what_ = "%s folded (two valuations x both layouts)" % f.name
        run.ob(rid, what_ + ": the record holds (memory, sequence number, size, allocator, current period, current stage, file, line) of this allocation", f.site, not bad, witness=bad or got_all,
               what="" if not bad else "a new record does not carry the period/stage/values in force when it was allocated (field: (stored, expected) %s): leaks are attributed to the wrong test or report" % bad)
        run.ob(rid, what_ + ": the sequence number advances by one per record", f.site, seq_ok)
        run.ob(rid, what_ + ": the guard bytes are written directly behind the block (memory + size)", f.site, guard_ok)
        run.ob(rid, what_ + ": the stamped record is entered into the table once", f.site, added_ok)


def stamp_of(prog, state, sep=0):
    """the record a detector in `state` writes for one allocation (allocMemory folded over the heap model): its fields"""
    am = [f for f in prog.fns(DET + "::allocMemory") if len(f.params) == 5][0]
    DINL = {g.qn for g in prog.functions.values() if g.qn.startswith(DET + "::")} | {"MemoryLeakDetectorNode::init", "calculateVoidPointerAlignedSize"}
    env = dict(state)
    env.update(dict(zip([q["name"] for q in am.params], (9000, 24, 111000, 77, sep))))
    added = []
    ev = Evaluator(prog, am, env=env, calls={
        "TestMemoryAllocator::alloc_memory": lambda *a_: 70000, "TestMemoryAllocator::allocMemoryLeakNode": lambda *a_: 90000, "TestMemoryAllocator::free_memory": lambda *a_: 0,
        TAB + "::addNewNode": lambda *a_: (added.append(a_[-1]), 0)[1], DET + "::addMemoryCorruptionInformation": lambda *a_: 0})
    ev.heap_mode = True
    ev.inline = DINL - set(ev.calls)
    ev.optional_stubs = {DET + "::addMemoryCorruptionInformation"}
    ev.run_blocks(am.entry, max_steps=3000)
    if len(added) != 1:
        raise Unknown("the allocation enters %d records" % len(added))
    return {k[len("@%s." % added[0]):]: v for k, v in ev.env.items() if k.startswith("@%s." % added[0])}


def refused_realloc_rule(prog, run, rid):
    """a realloc request the detector refuses itself (size + bookkeeping would overflow) leaves the set of outstanding blocks as it was:
    the caller still owns the block, a later paired release must not be reported as 'non-allocated' (shared with C06)"""
    from .shared import detector_fold
    rm = prog.fn(DET + "::reallocMemory")
    run.analysed(rm)
    names = [q["name"] for q in rm.params]
    for sep in (0, 1):
        for size in ((1 << 64) - 1, (1 << 64) - 9):
            try:
                r, log, ev = detector_fold(prog, rm, dict(zip(names, (9000, 50000, size, 111000, 77, sep))), {"remove": 6000, "realloc": 70000})
            except Unknown as u:
                raise AnalysisBroken("%s.%s: reallocMemory cannot be folded for a refused size: %s" % (run.pid, rid, u))
            kinds = [k for k, a_ in log]
            ok = r == 0 and "remove" not in kinds and "add" not in kinds
            run.ob(rid, "reallocMemory folded [%s record, known block, size %d whose bookkeeping overflows]: refused with NULL and the block's record stays" % ("separate" if sep else "inline", size), rm.site, ok,
                   witness={"returns": r, "calls": kinds}, what="" if ok else "the refused request returns %s after %s: the caller still owns the block, but it is no longer among the outstanding ones (its release is then reported as non-allocated memory)" % (r, kinds))


def list_total_rule(prog, run, rid, maxn=4):
    """MemoryLeakDetectorList::getTotalLeaks folded on every list of 0..maxn records x every in-period pattern: the count is
    the number of records of the period, wherever they stand (shared with C07: the per-test verdict is this count)"""
    gt = prog.fn(LST + "::getTotalLeaks")
    run.analysed(gt)
    LINL = {g.qn for g in prog.functions.values() if g.qn.startswith(LST + "::")}
    bad, ncase = None, 0
    for n in range(0, maxn + 1):
        for pat in itertools.product((0, 1), repeat=n):
            ncase += 1
            ev = Evaluator(prog, gt, env=dict(list_env(n, {}), **{gt.params[0]["name"]: 7}))
            ev.heap_mode = True
            ev.inline = LINL
            ev.calls[LST + "::isInPeriod"] = lambda node, period, pat=pat: pat[node - 1] if node and 1 <= node <= len(pat) else None
            try:
                ev.run_blocks(gt.entry, max_steps=1500)
                got = getattr(ev, "ret", None)
            except Unknown as u:
                got = "unknown: %s" % u
            if got != sum(pat) and bad is None:
                bad = "list of %d records with in-period pattern %s: counts %s, %d records are of the period" % (n, list(pat), got, sum(pat))
    run.ob(rid, "the per-bucket leak count (getTotalLeaks) folded on %d lists: exactly the records of the asked period are counted, wherever they stand in the list" % ncase, gt.site, bad is None, witness=bad or "%d lists" % ncase,
           what="" if bad is None else "records of other tests / periods are charged to this one (or leaks are missed): " + bad)


def table_walk_rules(prog, run, r_agree, r_cover, only=None):
    """bucket agreement (r_agree) and coverage (r_cover) of the leak table, decided by folding every table method against
    recording bucket stubs. `only`: restrict to the named table methods (C07 re-uses the leak walkers)."""
    hp = [e["v"] for en in prog.enums.values() for e in en["enumerators"] if e["name"] == "hash_prime"]
    if not hp:
        raise AnalysisBroken("hash_prime not found")
    HP = hp[0]
    TINL = {g.qn for g in prog.functions.values() if g.qn.startswith(TAB + "::")}
    NODE, OTHER = 5000, 6000      # addresses of records (heap model)

    def fold_table(f, env, answers):
        """fold a table method; every call of a bucket (list) method is recorded as (method, bucket key, args) and answered by
        answers(method, bucket index, args). Returns (result, [(method, bucket index, args)])."""
        seq = []
        ev = Evaluator(prog, f, env=env)
        ev.heap_mode = True
        ev.pass_object = "key"
        ev.inline = TINL

        def mk(qn):
            def hook(*a_):
                key = a_[0] if a_ and isinstance(a_[0], str) else None
                m_ = re.match(r"^table_\[(-?\d+)\]$", key or "")
                bi = int(m_.group(1)) if m_ else None
                args = a_[1:] if key is not None else a_
                seq.append((qn.split("::")[-1], bi, args))
                return answers(qn.split("::")[-1], bi, args)
            return hook
        for g in prog.functions.values():
            if g.qn.startswith(LST + "::"):
                ev.calls[g.qn] = mk(g.qn)
        ev.run_blocks(f.entry, max_steps=20000)
        r = getattr(ev, "ret", None)
        if isinstance(r, tuple) and r and r[0] == "unknown":
            raise Unknown(r[1])
        return r, seq

    def table_rule(rule, meth, text, cases, what=""):
        if only is not None and meth not in only:
            return
        f = prog.fn(TAB + "::" + meth)
        run.analysed(f)
        bad, ncase = None, 0
        for desc, env, answers, judge in [c_ for pv in (3, 1) for c_ in cases(f, pv)]:
            ncase += 1
            try:
                r, seq = fold_table(f, env, answers)
            except Unknown as u:
                run.broke("C04.%s: %s cannot be folded for %s: %s" % (rule, meth, desc, u))
                return
            why = judge(r, seq)
            if why and bad is None:
                bad = "%s: %s" % (desc, why)
        run.ob(rule, "%s %s (folded, %d cases)" % (meth, text, ncase), f.site, bad is None, witness=bad or "%d cases" % ncase, what="" if bad is None else (what + ": " if what else "") + bad)

    ADDRS = (0, 1, 72, 73, 74, 4096, 0x7ffff7a0c010, (1 << 64) - 1)

    def file_cases(meth, by_node):
        def gen(f, pv):
            for addr in ADDRS:
                env = {f.params[0]["name"]: NODE if by_node else addr, "@%d.memory_" % NODE: addr}
                want = addr % HP

                def judge(r, seq, want=want, addr=addr):
                    if [(m, b) for m, b, a_ in seq] != [(meth, want)]:
                        return "bucket calls %s, expected one %s on bucket %d" % ([(m, b) for m, b, a_ in seq], meth, want)
                    if seq[0][2][:1] != ((NODE if by_node else addr),):
                        return "the bucket is asked about %s" % (seq[0][2],)
                    if not by_node and r != 777:
                        return "the bucket's answer is not returned (%s)" % (r,)
                    return ""
                yield "address %#x" % addr, env, (lambda m, b, a_: 777), judge
        return gen
    for meth, by_node in (("addNewNode", True), ("removeNode", False), ("retrieveNode", False)):
        table_rule(r_agree, meth, "files/searches in bucket hash(the block's own address) and nowhere else", file_cases(meth, by_node),
                   what="a record is filed or searched in a bucket other than hash(its address): blocks are lost or never found")

    def next_cases(meth, first):
        def gen(f, pv):
            for addr in (0, 1, 71, 72, 73 + 5, 4096):
                h = addr % HP
                for found_in_chain in (True, False):
                    for k in sorted({h + 1, h + 2, HP - 1, None}, key=lambda x: (x is None, x)):
                        if k is not None and not (h < k < HP):
                            continue
                        if found_in_chain and k is not None:
                            continue
                        env = {f.params[0]["name"]: NODE, "@%d.memory_" % NODE: addr, f.params[1]["name"]: pv}

                        def answers(m, b, a_, k=k, found_in_chain=found_in_chain):
                            if m == meth:
                                return OTHER if found_in_chain else 0
                            return OTHER + b if b == k else 0

                        def judge(r, seq, h=h, k=k, found_in_chain=found_in_chain, pv=pv):
                            calls = [(m, b) for m, b, a_ in seq]
                            if calls[:1] != [(meth, h)] or seq[0][2][:1] != (NODE,):
                                return "does not continue in the given leak's own chain (bucket %d): %s" % (h, calls[:2])
                            if any(a_[-1:] != (pv,) for m, b, a_ in seq):
                                return "a bucket is asked with another period/stage than the caller's: %s" % ([a_ for m, b, a_ in seq][:3],)
                            if found_in_chain:
                                return "" if calls == [(meth, h)] and r == OTHER else "a leak found in the chain is not returned at once: %s -> %s" % (calls[:3], r)
                            last = k if k is not None else HP - 1
                            want = [(meth, h)] + [(first, b) for b in range(h + 1, last + 1)]
                            if calls != want:
                                return "visits buckets %s, expected %d..%d in order" % ([b for m, b in calls[1:]][:6], h + 1, last)
                            wr = OTHER + k if k is not None else 0
                            return "" if r == wr else "returns %s, expected %s" % (r, wr)
                        yield "leak in bucket %d, %s" % (h, "next in its chain" if found_in_chain else ("next leak in bucket %s" % k if k is not None else "no later leak")), env, answers, judge
        return gen
    table_rule(r_agree, "getNextLeak", "continues in the bucket of the given leak", next_cases("getNextLeak", "getFirstLeak"))
    table_rule(r_agree, "getNextLeakForAllocationStage", "continues in the bucket of the given leak", next_cases("getNextLeakForAllocationStage", "getFirstLeakForAllocationStage"))
    table_rule(r_cover, "getNextLeak", "then visits every later bucket [hash+1, hash_prime) in order until a leak is found", next_cases("getNextLeak", "getFirstLeak"),
               what="some buckets are never visited: their leaks are missing from the report")
    table_rule(r_cover, "getNextLeakForAllocationStage", "then visits every later bucket [hash+1, hash_prime) in order until a leak is found", next_cases("getNextLeakForAllocationStage", "getFirstLeakForAllocationStage"),
               what="some buckets are never visited: their leaks are missing from the report")

    def all_cases(meth, arity):
        def gen(f, pv):
            env = {q["name"]: pv for q in f.params}

            def judge(r, seq, pv=pv):
                calls = [(m, b) for m, b, a_ in seq]
                if sorted(calls) != [(meth, b) for b in range(HP)] or len(calls) != HP:
                    missing = sorted(set(range(HP)) - {b for m, b in calls})
                    return "buckets visited %d times; never visited: %s" % (len(calls), missing[:5])
                if any(a_ != (pv,) * arity for m, b, a_ in seq):
                    return "a bucket is called with %s" % ([a_ for m, b, a_ in seq if a_ != (pv,) * arity][0],)
                if meth == "getTotalLeaks" and r != sum(b + 1 for b in range(HP)):
                    return "the total is %s, the buckets add up to %d" % (r, sum(b + 1 for b in range(HP)))
                return ""
            yield "every bucket answers its index + 1", env, (lambda m, b, a_: (b + 1) if b is not None else 0), judge
        return gen
    table_rule(r_cover, "getTotalLeaks", "visits every bucket [0, hash_prime) once and adds up their totals", all_cases("getTotalLeaks", 1),
               what="some buckets are never visited: their blocks are missing from totals, reports or clearing")
    table_rule(r_cover, "clearAllAccounting", "visits every bucket [0, hash_prime) once", all_cases("clearAllAccounting", 1),
               what="some buckets are never visited: their blocks are missing from totals, reports or clearing")

    def first_cases(meth):
        def gen(f, pv):
            for k in (0, 1, 36, HP - 2, HP - 1, None):
                env = {q["name"]: pv for q in f.params}

                def judge(r, seq, k=k, pv=pv):
                    calls = [(m, b) for m, b, a_ in seq]
                    last = k if k is not None else HP - 1
                    if calls != [(meth, b) for b in range(0, last + 1)]:
                        return "visits buckets %s..., expected 0..%d in order" % ([b for m, b in calls][:6], last)
                    if any(a_ != (pv,) for m, b, a_ in seq):
                        return "a bucket is asked with another period/stage than the caller's"
                    wr = OTHER + k if k is not None else 0
                    return "" if r == wr else "returns %s, expected %s" % (r, wr)
                yield ("first leak in bucket %d" % k) if k is not None else "no leak", env, (lambda m, b, a_, k=k: OTHER + b if b == k else 0), judge
        return gen
    table_rule(r_cover, "getFirstLeak", "visits every bucket [0, hash_prime) in order until a leak is found and returns it", first_cases("getFirstLeak"),
               what="some buckets are never visited: their blocks are missing from totals, reports or clearing")
    table_rule(r_cover, "getFirstLeakForAllocationStage", "visits every bucket [0, hash_prime) in order until a leak is found and returns it", first_cases("getFirstLeakForAllocationStage"),
               what="some buckets are never visited: their blocks are missing from totals, reports or clearing")



def check(ctx, run):
    prog = ctx.program()
    run.assume("allocator addresses are arbitrary; the list/bucket primitives are folded over every list of up to 4 records and every match pattern, which covers all states of their uniform per-node transitions")
    run.not_decided.append("that the table equals the set of outstanding blocks after EVERY history of operations (heap-shape property over unbounded histories); decided: each primitive's effect on every short list, the bucket/period tables and the pairing of every allocate/release path with exactly one insert/remove")
    run.rule("R1", "bucket agreement: add/remove/retrieve/next-leak index table_ by hash(the block address) through one hash whose result is below the table extent", floor=7)
    run.rule("R2", "bucket coverage: totals, first-leak and clear loops visit [0, hash_prime); next-leak continues in the leak's own chain and then in [hash+1, hash_prime)", floor=6)
    run.rule("R3", "isInPeriod folded over MemLeakPeriod x MemLeakPeriod (16 cells) equals the oracle table", floor=16, exhaustive=True)
    run.rule("R4", "list surgery folded over every list of 0..4 records x every match pattern: clearAllAccounting removes exactly the matching records and keeps the others in order; removeNode unlinks exactly the addressed record; retrieve/total/first-from agree with the list", floor=90, exhaustive=True)
    run.rule("R5", "bookkeeping pairing: allocMemory stores one record on success and none on failure; deallocMemory removes first; reallocMemory removes then stores once on success", floor=5)
    run.rule("R6", "stamping: a new record carries the current period, allocation stage, sequence number, size, file and line", floor=5)
    run.rule("R7", "report totals: the leak report folded over scripted table walks (0..3 leaks x allocator kinds x buffer full or not x two periods): the walk asks first/next with the report's period, every leak is listed once with its own record values, the total line states the number of leaks walked also when the text buffer is full", floor=4)
    run.rule("R8", "routing: every global operator new/delete overload forwards to the slot of its own family; the tracked functions use the allocator of their family and separate records exactly for the malloc family; slot switch/save/restore tables", floor=80)

    # ---------------- R1 / R2 -----------------------------------------------
    hp = [e["v"] for en in prog.enums.values() for e in en["enumerators"] if e["name"] == "hash_prime"]
    rec = prog.records.get(TAB, {})
    ext = [fl.get("extent") for fl in rec.get("fields", []) if fl["name"] == "table_"]
    run.ob("R1", "table extent equals hash_prime", "include/CppUTest/MemoryLeakDetector.h:" + TAB, bool(hp) and ext == [hp[0]], witness={"extent": ext, "hash_prime": hp})
    hs = prog.fn(TAB + "::hash")
    run.analysed(hs)
    okh = True
    for addr in (0, 1, 72, 73, 74, 4096, 0x7ffff7a0c010, (1 << 64) - 1, (1 << 63) + 5):
        ev = Evaluator(prog, hs, env={hs.params[0]["name"]: addr})
        try:
            ev.run_blocks(hs.entry)
            got = getattr(ev, "ret", None)
        except Unknown as u:
            got = "unknown: %s" % u
        if got != addr % hp[0]:
            okh = False
    run.ob("R1", "hash(address) = address mod hash_prime (always below the extent)", hs.site, okh)
    table_walk_rules(prog, run, "R1", "R2")

    # ---------------- R3 ----------------------------------------------------
    ip = prog.fn(LST + "::isInPeriod")
    run.analysed(ip)
    per = {e["name"]: e["v"] for en in prog.enums.values() if en["qn"].endswith("MemLeakPeriod") for e in en["enumerators"]}
    if len(per) < 4:
        raise AnalysisBroken("MemLeakPeriod enumerators not found")
    A, D, E, C = per["mem_leak_period_all"], per["mem_leak_period_disabled"], per["mem_leak_period_enabled"], per["mem_leak_period_checking"]
    for (nn, nv), (qn_, qv) in itertools.product(sorted(per.items()), sorted(per.items())):
        ev = Evaluator(prog, ip, env={ip.params[0]["name"]: 1, "@1.period_": nv, ip.params[1]["name"]: qv})
        ev.heap_mode = True
        try:
            ev.run_blocks(ip.entry)
            got = getattr(ev, "ret", None)
        except Unknown as u:
            got = "unknown: %s" % u
        want = 1 if (qv == A or nv == qv or (qv == E and nv != D)) else 0
        run.ob("R3", "record stamped %s, query %s" % (nn.replace("mem_leak_period_", ""), qn_.replace("mem_leak_period_", "")), ip.site, got == want, witness={"folded": got, "oracle": want})

    # ---------------- R4 ----------------------------------------------------
    ca = prog.fn(LST + "::clearAllAccounting")
    rn = prog.fn(LST + "::removeNode")
    rt = prog.fn(LST + "::retrieveNode")
    gt = prog.fn(LST + "::getTotalLeaks")
    gl = prog.fn(LST + "::getLeakFrom")
    for f in (ca, rn, rt, gt, gl):
        run.analysed(f)
    LINL = {g.qn for g in prog.functions.values() if g.qn.startswith(LST + "::")}     # helpers of the list are transparent
    for n in range(0, 6 if ctx.thorough else 5):
        for pat in itertools.product((0, 1), repeat=n):
            env = list_env(n, {})
            env[ca.params[0]["name"]] = 7
            ev = Evaluator(prog, ca, env=env)
            ev.heap_mode = True
            ev.inline = LINL
            ev.pass_object = True
            ev.calls[LST + "::isInPeriod"] = lambda node, period, pat=pat: pat[node - 1] if node and 1 <= node <= len(pat) else None
            try:
                ev.run_blocks(ca.entry, max_steps=800)
                got = chain(ev.env)
            except Unknown as u:
                got = "unknown: %s" % u
            want = [k for k in range(1, n + 1) if not pat[k - 1]]
            run.ob("R4", "clearAllAccounting on %d records, in-period pattern %s" % (n, list(pat)), ca.site, got == want, witness={"remaining": got, "expected": want},
                   what="" if got == want else "clearing leaves %s accounted (expected %s)" % (got, want))
            # totals and first-from on the same list
            ev = Evaluator(prog, gt, env=dict(list_env(n, {}), **{gt.params[0]["name"]: 7}))
            ev.heap_mode = True
            ev.inline = LINL
            ev.calls[LST + "::isInPeriod"] = lambda node, period, pat=pat: pat[node - 1] if node and 1 <= node <= len(pat) else None
            try:
                ev.run_blocks(gt.entry, max_steps=800)
                got = getattr(ev, "ret", None)
            except Unknown as u:
                got = "unknown: %s" % u
            run.ob("R4", "getTotalLeaks on %d records, pattern %s" % (n, list(pat)), gt.site, got == sum(pat), witness={"folded": got})
            for start in range(0, n + 1):
                ev = Evaluator(prog, gl, env=dict(list_env(n, {}), **{gl.params[0]["name"]: start, gl.params[1]["name"]: 7}))
                ev.heap_mode = True
                ev.inline = LINL
                ev.calls[LST + "::isInPeriod"] = lambda node, period, pat=pat: pat[node - 1] if node and 1 <= node <= len(pat) else None
                try:
                    ev.run_blocks(gl.entry, max_steps=800)
                    got = getattr(ev, "ret", None)
                except Unknown as u:
                    got = "unknown: %s" % u
                want = next((k for k in range(start, n + 1) if k >= 1 and pat[k - 1]), 0) if start else 0
                if got != want:
                    run.ob("R4", "getLeakFrom(record %d) on %d records, pattern %s" % (start, n, list(pat)), gl.site, False, witness={"folded": got, "expected": want})
        run.ob("R4", "getLeakFrom folded for every start record on all lists of %d records" % n, gl.site, True, witness="see violations, if any")
        # the walk that releases an allocation stage: the records of exactly that stage, wherever they stand (stages go down and up
        # again, so a record of a lower stage may stand in front of one of the asked stage)
        gfs, gns = prog.fn(LST + "::getFirstLeakForAllocationStage"), prog.fn(LST + "::getNextLeakForAllocationStage")
        run.analysed(gfs)
        run.analysed(gns)
        bad, ncase = None, 0
        for stages in itertools.product((0, 1, 2), repeat=n):
            ncase += 1
            visited, cur, steps = [], None, 0
            try:
                while steps <= n + 1:
                    f_ = gfs if cur is None else gns
                    env = list_env(n, {"allocation_stage_": list(stages)})
                    env.update({f_.params[-1]["name"]: 1})
                    if cur is not None:
                        env[f_.params[0]["name"]] = cur
                    ev = Evaluator(prog, f_, env=env)
                    ev.heap_mode = True
                    ev.inline = LINL
                    ev.run_blocks(f_.entry, max_steps=800)
                    cur = getattr(ev, "ret", None)
                    if isinstance(cur, tuple):
                        raise Unknown(str(cur))
                    if not cur:
                        break
                    visited.append(cur)
                    steps += 1
            except Unknown as u:
                visited = "unknown: %s" % u
            want = [k for k in range(1, n + 1) if stages[k - 1] == 1]
            if visited != want and bad is None:
                bad = "records with stages %s, stage 1 asked: the walk visits %s, the records of that stage are %s" % (list(stages), visited, want)
        run.ob("R4", "stage walk (getFirstLeakForAllocationStage / getNextLeakForAllocationStage) folded on %d lists of %d records with stages in {0,1,2}: visits exactly the records of the asked stage, in list order" % (ncase, n), gfs.site, bad is None,
               witness=bad or "%d lists" % ncase, what="" if bad is None else "releasing an allocation stage misses blocks of that stage (or touches others): " + bad)
        mem = [1000 + 8 * k for k in range(1, n + 1)]
        for target in mem + [9999]:
            for f, removes in ((rn, True), (rt, False)):
                ev = Evaluator(prog, f, env=dict(list_env(n, {"memory_": mem}), **{f.params[0]["name"]: target}))
                ev.heap_mode = True
                ev.inline = LINL
                try:
                    ev.run_blocks(f.entry, max_steps=800)
                    ret = getattr(ev, "ret", None)
                    got = chain(ev.env)
                except Unknown as u:
                    ret, got = "unknown: %s" % u, None
                idx = mem.index(target) + 1 if target in mem else 0
                want = [k for k in range(1, n + 1) if not (removes and k == idx)]
                run.ob("R4", "%s(address of record %d) on %d records" % (f.name, idx, n), f.site, ret == idx and got == want, witness={"returns": ret, "remaining": got},
                       what="" if ret == idx and got == want else "%s returns %s and leaves %s (expected %s / %s)" % (f.name, ret, got, idx, want))
    an = prog.fn(LST + "::addNewNode")
    run.analysed(an)
    ev = Evaluator(prog, an, env=dict(list_env(2, {}), **{an.params[0]["name"]: 9}))
    ev.heap_mode = True
    ev.inline = LINL
    try:
        ev.run_blocks(an.entry)
        got = chain(ev.env)
    except Unknown as u:
        got = "unknown: %s" % u
    run.ob("R4", "addNewNode pushes the record at the head and keeps the others", an.site, got == [9, 1, 2], witness=got)

    # ---------------- R5 ----------------------------------------------------
    from .shared import detector_fold
    am = [f for f in prog.fns(DET + "::allocMemory") if len(f.params) == 5][0]
    rm = prog.fn(DET + "::reallocMemory")
    run.analysed(am)
    run.analysed(rm)

    def pv(f, *vals):
        return dict(zip([q["name"] for q in f.params], vals))
    try:
        for sep in (0, 1):
            for mem, node in ((70000, 90000), (0, 90000), (70000, 0)):
                if not sep and node == 0:
                    continue
                r, log, ev = detector_fold(prog, am, pv(am, 9000, 24, 111000, 77, sep), {"alloc": mem, "allocnode": node})
                kinds = [k for k, a_ in log]
                ok_case = mem != 0 and (node != 0 or not sep)
                ok = (kinds.count("add") == 1 and r == mem) if ok_case else (kinds.count("add") == 0 and r == 0)
                run.ob("R5", "allocMemory folded [%s record, allocator answers %s%s]: one record iff a block is returned" % ("separate" if sep else "inline", mem, ", record allocation fails" if sep and node == 0 else ""), am.site, ok,
                       witness={"returns": r, "calls": kinds}, what="" if ok else "a block is returned without exactly one record, or a record is stored for a failed allocation")
            for known, newmem in ((6000, 70000), (6000, 0), (0, 70000)):
                r, log, ev = detector_fold(prog, rm, pv(rm, 9000, 50000, 24, 111000, 77, sep), {"remove": known, "realloc": newmem})
                kinds = [k for k, a_ in log]
                why = ""
                if kinds[:1] != ["remove"] or log[0][1][-1] != 50000:
                    why = "the old record is not removed first (%s)" % kinds[:3]
                elif not known:
                    if kinds.count("reportDeallocateNonAllocatedMemoryFailure") != 1 or "realloc" in kinds or "add" in kinds or r != 0:
                        why = "an unknown block must give one non-allocated report and nothing else (%s -> %s)" % (kinds, r)
                elif newmem:
                    if kinds.count("add") != 1 or kinds.index("remove") > kinds.index("add") or r != newmem:
                        why = "the old record is removed, then exactly one new record stored and the new block returned (%s -> %s)" % (kinds, r)
                elif kinds.count("add") != 0 or r != 0:
                    why = "a failed realloc stores a record or returns a block (%s -> %s)" % (kinds, r)
                run.ob("R5", "reallocMemory folded [%s record, block %s, realloc answers %s]: the old record is removed before the new one is stored" % ("separate" if sep else "inline", "known" if known else "unknown", newmem), rm.site, not why,
                       witness={"returns": r, "calls": kinds}, what=why)
        refused_realloc_rule(prog, run, "R5")
        # a release takes the block out of the set of outstanding blocks whether or not its allocator is still alive (statics are torn
        # down in an unspecified order): the record goes exactly once; the memory is handed back only to a live allocator
        dm = [f_ for f_ in prog.fns(DET + "::deallocMemory") if len(f_.params) == 5]
        if len(dm) != 1:
            raise AnalysisBroken("C04.R5: the five-parameter deallocMemory not found")
        dm = dm[0]
        run.analysed(dm)
        for sep, destroyed in itertools.product((0, 1), (0, 1)):
            r, log, ev = detector_fold(prog, dm, pv(dm, 9000, 50000, 111000, 77, sep), {"remove": 6000, "retrieve": 6000, "destroyed": destroyed})
            kinds = [k for k, a_ in log]
            ok = kinds.count("remove") == 1 and kinds.count("free") == (0 if destroyed else 1) and "add" not in kinds
            run.ob("R5", "deallocMemory folded [%s record, allocator %s]: the block's record is removed exactly once%s" % ("separate" if sep else "inline", "already destroyed" if destroyed else "alive", "" if destroyed else " and the memory handed back once"),
                   dm.site, ok, witness={"calls": kinds}, what="" if ok else "the record is removed %d times, the memory freed %d times: a released block stays among the outstanding ones (or is released twice)" % (kinds.count("remove"), kinds.count("free")))
    except Unknown as u:
        run.broke("C04.R5: allocMemory/reallocMemory cannot be folded: %s" % u)

    # ---------------- R6 ----------------------------------------------------
    stamping_rule(prog, run, "R6")

    # ---------------- R7 ----------------------------------------------------
    from .shared import report_rules
    LEN_ = [e["v"] for en in prog.enums.values() for e in en["enumerators"] if e["name"] == "SIMPLE_STRING_BUFFER_LEN"]
    report_rules(prog, run, "R7", "R7", LEN_[0] if LEN_ else 0)
    tl = prog.fn(DET + "::totalMemoryLeaks")
    asked = []
    ev = Evaluator(prog, tl, env={tl.params[0]["name"]: 3}, calls={TAB + "::getTotalLeaks": lambda *a_: (asked.append(a_[-1]), 77)[1]})
    ev.inline = {g.qn for g in prog.functions.values() if g.qn.startswith(DET + "::")}
    try:
        ev.run_blocks(tl.entry, max_steps=300)
        r = getattr(ev, "ret", None)
    except Unknown as u:
        r = "unknown: %s" % u
    run.ob("R7", "totalMemoryLeaks folded: asks the table once with the caller's period and returns its count", tl.site, asked == [3] and r == 77, witness={"asked": asked, "returns": r})

    # ---------------- R8 ----------------------------------------------------
    from .C10 import slot_switch_rules, PLUGIN
    slots, saved, stored = slot_switch_rules(prog, run, "R8")
    from .C10 import overload_routing_rule
    overload_routing_rule(prog, run, "R8")
    from .C10 import slot_fold
    GETV = {"operator_new": 101, "operator_new_array": 102, "operator_delete": 101, "operator_delete_array": 102, "malloc": 103, "free": 103, "realloc": 103}
    METH = {"operator_new": "allocMemory", "operator_new_array": "allocMemory", "malloc": "allocMemory", "operator_delete": "deallocMemory", "operator_delete_array": "deallocMemory", "free": "deallocMemory", "realloc": "reallocMemory"}
    for kind in ("default", "threadsafe"):
        for s_ in slots:
            mn = stored[kind].get(s_)
            f = prog.functions.get(mn)
            if f is None:
                continue
            role = s_[:-len("_fptr")]
            fam = re.sub(r"_(nothrow|debug)$", "", role)
            is_malloc = fam in ("malloc", "free", "realloc")
            try:
                events, r_, end_, env_ = slot_fold(prog, f)
            except Unknown as u:
                run.broke("C04.R8: %s cannot be folded: %s" % (f.qn, u))
                continue
            det = [e for e in events if e[0] == "detector" and e[1] != "invalidateMemory"]
            why = ""
            if len(det) != 1 or det[0][1] != METH[fam]:
                why = "calls %s; expected one %s" % ([e[1] for e in det], METH[fam])
            else:
                args = det[0][2]
                pvals = [env_[q["name"]] for q in f.params]
                if not args or args[0] != GETV[fam]:
                    why = "accounts with allocator %s; the %s family uses %s" % ({101: "new", 102: "new[]", 103: "malloc"}.get(args[0] if args else None, args[:1]), fam, {101: "getCurrentNewAllocator()", 102: "getCurrentNewArrayAllocator()", 103: "getCurrentMallocAllocator()"}[GETV[fam]])
                else:
                    # the block / size handed on are the function's own parameters, in order
                    own = [a_ for a_ in args[1:] if a_ in pvals]
                    need = [v for q, v in zip(f.params, pvals) if "nothrow_t" not in q["ct"]]
                    if own[:len(need)] != need:
                        why = "passes %s of its parameters %s" % (own, need)
                    sep = args[-1] if isinstance(args[-1], int) and args[-1] in (0, 1) and len(args) > 1 + len(need) else 0
                    if not why and bool(sep) != is_malloc:
                        why = "separate-record flag is %s for the %s family" % (sep, fam)
            run.ob("R8", "%s slot %s -> %s accounts through %s with the %s allocator, separate records %s" % (kind, s_, f.name, METH[fam], fam, "yes" if is_malloc else "no"), f.site, not why, witness=[list(map(str, e)) for e in det],
                   what="" if not why else "the tracked %s function accounts with the wrong allocator family or record layout: %s" % (role, why))

"""C15 — injected out-of-memory hits exactly the designated allocations. DESIGN.md section 4, C15."""
import re
from .common import *
from cpv.ceval import Evaluator, Unknown

FA = "FailableMemoryAllocator"
NODE = "LocationToFailAllocNode"
UNIT_C = "src/CppUTest/TestHarness_c.cpp"


def writes_state(prog, f):
    """does function f write any member field (assignment / ++ / --)"""
    for n in f.walk():
        tgt = None
        if n["k"] in ("BinaryOperator", "CompoundAssignOperator") and n.get("op", "").endswith("=") and n["op"] not in ("==", "!=", "<=", ">="):
            tgt = f.node(n.get("lhs"))
        elif n["k"] == "UnaryOperator" and n.get("op") in ("++", "--"):
            tgt = n["c"][0]
        if tgt is not None:
            t = f.strip(tgt)
            if t is not None and t["k"] == "MemberExpr":
                return render(f, t)
    return None


def check(ctx, run):
    prog = ctx.program()
    run.assume("allocations reach FailableMemoryAllocator::alloc_memory once each (routing is C04.R8)")
    run.not_decided.append("which allocations a concrete workload performs; only the per-allocation transition of the designation list is decided")
    run.rule("R1", "designation kind discipline: in shouldFail the global allocation index is compared only where the designation has no location, and the per-location counter advances only where it has one and the location matches", floor=3)
    run.rule("R2", "every pending designation sees every allocation: shouldFail updates state, so no path of the walk in alloc_memory leaves before all nodes were evaluated", floor=2)
    run.rule("R3", "alloc_memory: global counter +1 per call; a fired node is unlinked (prev->next_ = next | head_ = next) and freed once; NULL iff some node fired, else the base allocator's result; checkAllFailedAllocsWereDone fails iff a designation is left; clearFailedAllocs frees all and resets the counter", floor=8)
    run.rule("R4", "countdown folded over the partition {<0, 0, 1, >1}; set_not_out_of_memory restores the saved allocator; cpputest_malloc_location counts down before allocating", floor=8, exhaustive=True)
    run.rule("R5", "strdup/strndup/calloc return NULL when the allocation they rely on fails (no use of the result before a null test)", floor=3)

    # ---------------- R1 ----------------------------------------------------
    sf = prog.fn(NODE + "::shouldFail")
    run.analysed(sf)
    pn = [p["name"] for p in sf.params]
    for p in enumerate_paths(sf):
        val = p.val()
        loc = val.get("file_")
        cmp_global = [k for k in val if pn[0] in k and "allocNumberToFail_" in k]
        ret_global = p.ret is not None and pn[0] in render(sf, sf.node(p.ret.get("value"))) if p.ret is not None and p.ret.get("value") is not None else False
        inc = [e for e in p.trace if isinstance(e, int) and sf.nodes[e]["k"] == "UnaryOperator" and sf.nodes[e].get("op") == "++" and "actualAllocNumber_" in render(sf, sf.nodes[e])]
        why = []
        if (cmp_global or ret_global) and loc is not False:
            why.append("a designation with a location is compared with the overall allocation number")
        if inc:
            same_loc = [v for k, v in val.items() if "StrCmp(" in k] + [v for k, v in val.items() if "line_" in k]
            if loc is not True:
                why.append("the per-location counter advances for a designation without location")
            # StrCmp(...) == 0 normalises to atom StrCmp(...) false
            if not ([v for k, v in val.items() if "StrCmp(" in k] == [False] and [v for k, v in val.items() if "line_" in k and "==" in k] == [True]):
                why.append("the per-location counter advances although file/line were not both compared equal")
            r = render(sf, sf.node(p.ret.get("value"))) if p.ret is not None else ""
            if "actualAllocNumber_" not in r or "allocNumberToFail_" not in r:
                why.append("a location designation does not answer with counter == n")
        if loc is False and not (cmp_global or ret_global):
            why.append("an index designation is not compared with the allocation number")
        run.ob("R1", "shouldFail [%s]" % short(p.describe(sf), 110), sf.site, not why, witness=render(sf, sf.node(p.ret.get("value"))) if p.ret is not None and p.ret.get("value") is not None else None, what="; ".join(why))
    cs = [render(sf, c) for c in sf.calls() if "StrCmp" in render(sf, c)]
    run.ob("R1", "locations are compared by content (StrCmp of the file names) and line", sf.site, cs in (["SimpleString::StrCmp(%s, file_)" % pn[1]], ["SimpleString::StrCmp(file_, %s)" % pn[1]]), witness=cs,
           what="" if cs else "file names are not compared with StrCmp: equal names held in different arrays would not match")

    # ---------------- R2 / R3 -----------------------------------------------
    am = prog.fn(FA + "::alloc_memory")
    run.analysed(am)
    eff = writes_state(prog, sf)
    loops = loop_blocks(am)
    head = None
    for b in am.blocks.values():
        if b["id"] in loops and b.get("cond") is not None and len(b["succ"]) == 2:
            key, pol = atom(am, am.nodes[b["cond"]])
            if key == "current":
                head = b
    if head is None:
        raise AnalysisBroken("designation walk in alloc_memory not found")
    body = head["succ"][0]
    its = enumerate_paths(am, start_block=body, end_blocks={head["id"]})
    leaves = [p for p in its if p.end != "endblock"]
    ok = (eff is None) or not leaves
    run.ob("R2", "the walk evaluates every node (the predicate writes %s)" % eff, am.site, ok, witness=[short(p.describe(am), 100) for p in leaves],
           what="" if ok else "the walk returns as soon as one designation fires: designations behind it do not count this allocation")
    adv = True
    for p in its:
        if p.end != "endblock":
            continue
        a = [(l, render(am, r)) for l, r, n in assignments(am, p)]
        cur = [r for l, r in a if l == "current"]
        if len(cur) != 1 or cur[0] not in ("current->next_", "next"):
            adv = False
    run.ob("R2", "every iteration advances to the node's successor", am.site, adv)
    for p in its:
        if p.end != "endblock" and p.end != "return":
            continue
        val = p.val()
        fired = [v for k, v in val.items() if k.startswith("current->shouldFail(")]
        a = [(l, render(am, r)) for l, r, n in assignments(am, p)]
        frees = [render(am, c) for c in path_calls(prog, am, p) if (prog.callee_name(am, c) or "").endswith("free_memory")]
        why = []
        if len(fired) != 1:
            why.append("shouldFail evaluated %d times in one iteration" % len(fired))
        elif fired[0]:
            prev = val.get("previous")
            unl = [(l, r) for l, r in a if l in ("previous->next_", "head_")]
            want = ("previous->next_" if prev else "head_")
            if len(unl) != 1 or unl[0][0] != want or unl[0][1] not in ("current->next_", "next"):
                why.append("fired node is not unlinked with %s = its successor (found %s)" % (want, unl))
            if len(frees) != 1 or "current" not in frees[0]:
                why.append("fired node freed %d times" % len(frees))
            if any(l == "previous" for l, r in a):
                why.append("previous moves onto the removed node")
        else:
            if [(l, r) for l, r in a if l in ("previous->next_", "head_")] or frees:
                why.append("a node that did not fire is unlinked or freed")
            if ("previous", "current") not in a:
                why.append("previous does not follow a kept node")
        args = [render(am, c) for c in path_calls(prog, am, p) if (prog.callee_name(am, c) or "").endswith("shouldFail")]
        if args and args[0] != "current->shouldFail(currentAllocNumber_, %s, %s)" % (am.params[1]["name"], am.params[2]["name"]):
            why.append("predicate called as %s" % args[0])
        run.ob("R3", "walk iteration [%s]" % short(p.describe(am), 90), am.site, not why, witness={"assign": a, "free": frees}, what="; ".join(why))
    # whole function: counter, result
    for p in enumerate_paths(am):
        val = p.val()
        incs = [e for e in p.trace if isinstance(e, int) and am.nodes[e]["k"] == "UnaryOperator" and am.nodes[e].get("op") == "++" and render(am, am.nodes[e]["c"][0]) == "currentAllocNumber_"]
        fired = any(v for k, v in val.items() if k.startswith("current->shouldFail("))
        # iterations are bounded by the enumerator; `fired` is about the iterations explored on this path
        r = render(am, am.node(p.ret.get("value"))) if p.ret is not None and p.ret.get("value") is not None else None
        first = [e for e in p.trace if isinstance(e, int) and am.nodes[e]["k"] in ("UnaryOperator", "CXXMemberCallExpr")]
        why = []
        if len(incs) != 1:
            why.append("allocation counter advanced %d times" % len(incs))
        else:
            sfc = [e for e in p.trace if isinstance(e, int) and am.nodes[e]["k"] == "CXXMemberCallExpr" and (prog.callee_name(am, am.nodes[e]) or "").endswith("shouldFail")]
            if sfc and p.trace.index(incs[0]) > p.trace.index(sfc[0]):
                why.append("the counter is advanced after designations were evaluated")
        if fired and r != "NULL":
            why.append("a designation fired but the allocation returns %s" % r)
        rn = am.strip(am.node(p.ret.get("value"))) if p.ret is not None and p.ret.get("value") is not None else None
        base_ok = rn is not None and rn["k"] == "CXXMemberCallExpr" and rn.get("callee", {}).get("qn") == "TestMemoryAllocator::alloc_memory" and rn["callee"].get("dispatch") == "direct" \
            and [render(am, a) for a in am.args(rn)] == [q["name"] for q in am.params]
        if not fired and not base_ok:
            why.append("no designation fired but the result is %s (expected the base allocator called with the same arguments)" % r)
        run.ob("R3", "alloc_memory [%s]" % short(p.describe(am), 90), am.site, not why, witness={"returns": r}, what="; ".join(why))
    chk = prog.fn(FA + "::checkAllFailedAllocsWereDone")
    run.analysed(chk)
    okc = True
    for p in enumerate_paths(chk, stop=lambda f, n: n["k"] in CALL_KINDS and (prog.callee_name(f, n) or "").endswith("failWith")):
        h = p.val().get("head_")
        if h is None or (p.end == "stop") != bool(h):
            okc = False
    run.ob("R3", "checkAllFailedAllocsWereDone fails the test iff a designation is left", chk.site, okc)
    clr = prog.fn(FA + "::clearFailedAllocs")
    run.analysed(clr)
    a = [(l, render(clr, r)) for l, r, n in assignments(clr)]
    frees = [render(clr, c) for c in clr.calls() if (prog.callee_name(clr, c) or "").endswith("free_memory")]
    ok = ("currentAllocNumber_", "0") in a and ("head_", "current->next_") in a and len(frees) == 1 and "current" in frees[0]
    okp = all(([x for x in assignments(clr, p)] or [("", None, None)])[-1][0] == "currentAllocNumber_" for p in enumerate_paths(clr))
    run.ob("R3", "clearFailedAllocs frees every node and resets the allocation counter on every path", clr.site, ok and okp, witness={"assign": a, "free": frees})
    for nm, meth in (("failAllocNumber", "failAtAllocNumber"), ("failNthAllocAt", "failNthAllocAt")):
        f = prog.fn(FA + "::" + nm)
        run.analysed(f)
        cs = [render(f, c) for c in f.calls() if ("newNode->" in render(f, c))]
        a = [(l, render(f, r)) for l, r, n in assignments(f)]
        want = "newNode->%s(%s, head_)" % (meth, ", ".join(q["name"] for q in f.params))
        run.ob("R3", "%s records its arguments in a new head node" % nm, f.site, cs == [want] and ("head_", "newNode") in a, witness={"call": cs, "assign": a})
    for nm in ("failAtAllocNumber", "failNthAllocAt"):
        f = prog.fn(NODE + "::" + nm)
        a = dict((l, render(f, r)) for l, r, n in assignments(f))
        pnn = [q["name"] for q in f.params]
        want = {"allocNumberToFail_": pnn[0]}
        if nm == "failNthAllocAt":
            want.update({"file_": pnn[1], "line_": pnn[2]})
        init_first = [render(f, c) for c in f.calls()][:1] == ["init(%s)" % pnn[-1]]
        run.ob("R3", "node %s stores (%s) after init(next)" % (nm, ", ".join(sorted(want))), f.site, a == want and init_first, witness=a)
    ini = prog.fn(NODE + "::init")
    a = dict((l, render(ini, r)) for l, r, n in assignments(ini))
    run.ob("R3", "node init clears both counters and the location, links next", ini.site,
           a == {"allocNumberToFail_": "0", "actualAllocNumber_": "0", "file_": "NULL", "line_": "0", "next_": ini.params[0]["name"]}, witness=a)

    # ---------------- R4 ----------------------------------------------------
    cd = prog.fn("countdown")
    run.analysed(cd)
    enumv = {e["name"]: e["v"] for en in prog.enums.values() for e in en["enumerators"] if e["name"] in ("NO_COUNTDOWN", "OUT_OF_MEMORRY")}
    for c0 in (-5, -1, 0, 1, 2, 7):
        ev = Evaluator(prog, cd, env={"malloc_out_of_memory_counter": c0})
        fired = []
        ev.calls["cpputest_malloc_set_out_of_memory"] = lambda fired=fired: (fired.append(1), 0)[1]
        try:
            ev.run_blocks(cd.entry, max_steps=200)
            after = ev.env.get("malloc_out_of_memory_counter")
        except Unknown as u:
            after = "unknown: %s" % u
        if c0 <= -1 or c0 == 0:
            want = (c0, 0)
        else:
            want = (c0 - 1, 1 if c0 - 1 == 0 else 0)
        run.ob("R4", "countdown from %d" % c0, cd.site, (after, len(fired)) == want, witness={"after": after, "switched_to_null_allocator": len(fired), "oracle": list(want)})
    ml = prog.fn("cpputest_malloc_location")
    run.analysed(ml)
    seq = [(prog.callee_name(ml, c) or "") for c in ml.calls()]
    ok = seq[:1] == ["countdown"] and "cpputest_malloc_location_with_leak_detection" in seq and seq.index("countdown") < seq.index("cpputest_malloc_location_with_leak_detection")
    rets = [render(ml, ml.node(n.get("value"))) for n in ml.walk() if n["k"] == "ReturnStmt"]
    run.ob("R4", "cpputest_malloc_location counts down, then allocates with its own arguments", ml.site, ok and rets == ["cpputest_malloc_location_with_leak_detection(%s)" % ", ".join(q["name"] for q in ml.params)], witness={"calls": seq, "returns": rets})
    from cpv.graph import callers_of
    cl = sorted({f.qn for f, c in callers_of(prog, "cpputest_malloc_location_with_leak_detection") if f.file.startswith("src/")})
    run.ob("R4", "only cpputest_malloc_location reaches the uncounted allocation entry (calloc/strdup/malloc all tick the countdown)", UNIT_C + ":cpputest_malloc_location_with_leak_detection",
           cl == ["cpputest_malloc_location"], witness=cl, what="" if cl == ["cpputest_malloc_location"] else "an allocation entry point bypasses the out-of-memory countdown")
    for fn_ in ("cpputest_calloc_location", "strdup_alloc", "cpputest_malloc"):
        f = prog.fn(fn_)
        cnt = [len([c for c in path_calls(prog, f, p) if prog.callee_name(f, c) == "cpputest_malloc_location"]) for p in enumerate_paths(f)]
        ok = bool(cnt) and all(c <= 1 for c in cnt) and any(c == 1 for c in cnt)
        run.ob("R4", "%s allocates through cpputest_malloc_location" % fn_, f.site, ok, witness=cnt)
    so = prog.fn("cpputest_malloc_set_out_of_memory")
    run.analysed(so)
    for p in enumerate_paths(so):
        saved = p.val().get("originalAllocator")
        a = [(l, render(so, r)) for l, r, n in assignments(so, p)]
        cs = [render(so, c) for c in path_calls(prog, so, p)]
        ok = (("originalAllocator", "getCurrentMallocAllocator()") in a) == (saved is False) and "setCurrentMallocAllocator(NullUnknownAllocator::defaultAllocator())" in cs
        run.ob("R4", "set_out_of_memory saves the current allocator once and installs the null allocator [%s]" % p.describe(so), so.site, ok, witness={"assign": a, "calls": cs})
    sn = prog.fn("cpputest_malloc_set_not_out_of_memory")
    run.analysed(sn)
    a = [(l, render(sn, r)) for l, r, n in assignments(sn)]
    cs = [render(sn, c) for c in sn.calls()]
    ok = ("malloc_out_of_memory_counter", "NO_COUNTDOWN") in a and ("originalAllocator", "NULL") in a and cs == ["setCurrentMallocAllocator(originalAllocator)"]
    run.ob("R4", "set_not_out_of_memory restores the saved allocator and clears countdown and saved pointer", sn.site, ok, witness={"assign": a, "calls": cs})
    sc = prog.fn("cpputest_malloc_set_out_of_memory_countdown")
    run.analysed(sc)
    for c0 in (0, 1, 3):
        ev = Evaluator(prog, sc, env={sc.params[0]["name"]: c0, "malloc_out_of_memory_counter": -1})
        fired = []
        ev.calls["cpputest_malloc_set_out_of_memory"] = lambda fired=fired: (fired.append(1), 0)[1]
        try:
            ev.run_blocks(sc.entry)
            got = (ev.env.get("malloc_out_of_memory_counter"), len(fired))
        except Unknown as u:
            got = "unknown: %s" % u
        run.ob("R4", "set_out_of_memory_countdown(%d)" % c0, sc.site, got == (c0, 1 if c0 == 0 else 0), witness={"counter, switched": got})
    nul = prog.fn("NullUnknownAllocator::alloc_memory")
    rets = [render(nul, nul.node(n.get("value"))) for n in nul.walk() if n["k"] == "ReturnStmt"]
    run.ob("R4", "the null allocator returns NULL", nul.site, rets == ["NULL"], witness=rets)

    # ---------------- R5 ----------------------------------------------------
    from .C05 import null_checked_uses
    for fn_ in ("strdup_alloc", "cpputest_calloc_location"):
        f = prog.fn(fn_)
        run.analysed(f)
        for inst, ok, wit, why in null_checked_uses(prog, f, ("cpputest_malloc_location",)):
            run.ob("R5", "%s: %s" % (fn_, inst), f.site, ok, witness=wit, what=why)
    for fn_ in ("cpputest_strdup_location", "cpputest_strndup_location"):
        f = prog.fn(fn_)
        rets = [render(f, f.node(n.get("value"))) for n in f.walk() if n["k"] == "ReturnStmt"]
        run.ob("R5", "%s returns strdup_alloc's result unchanged" % fn_, f.site, len(rets) == 1 and rets[0].startswith("strdup_alloc("), witness=rets)

"""C15 — injected out-of-memory hits exactly the designated allocations. DESIGN.md section 4, C15."""
import re
from .common import *
from cpv.ceval import Evaluator, Unknown

FA = "FailableMemoryAllocator"
NODE = "LocationToFailAllocNode"
UNIT_C = "src/CppUTest/TestHarness_c.cpp"


def writes_state(prog, f):
    """does function f write any member field (assignment / ++ / --)"""
    for n in f.walk():
        tgt = None
        if n["k"] in ("BinaryOperator", "CompoundAssignOperator") and n.get("op", "").endswith("=") and n["op"] not in ("==", "!=", "<=", ">="):
            tgt = f.node(n.get("lhs"))
        elif n["k"] == "UnaryOperator" and n.get("op") in ("++", "--"):
            tgt = n["c"][0]
        if tgt is not None:
            t = f.strip(tgt)
            if t is not None and t["k"] == "MemberExpr":
                return render(f, t)
    return None


def check(ctx, run):
    prog = ctx.program()
    run.assume("allocations reach FailableMemoryAllocator::alloc_memory once each (routing is C04.R8)")
    run.not_decided.append("which allocations a concrete workload performs; only the per-allocation transition of the designation list is decided")
    run.rule("R1", "designation kinds (alloc_memory with shouldFail inlined, folded over a heap model of 19 designation lists x 2 allocation numbers against the reference semantics): an index designation fires at its allocation number only, a location designation at the n-th allocation whose file content and line match", floor=30)
    run.rule("R2", "every pending designation sees every allocation: in the folded walk all per-location counters advance, also behind a designation that fires", floor=10)
    run.rule("R3", "alloc_memory: global counter +1 per call; a fired node is unlinked (prev->next_ = next | head_ = next) and freed once; NULL iff some node fired, else the base allocator's result; checkAllFailedAllocsWereDone fails iff a designation is left; clearFailedAllocs frees all and resets the counter", floor=8)
    run.rule("R4", "countdown folded over the partition {<0, 0, 1, >1}; set_not_out_of_memory restores the saved allocator; cpputest_malloc_location counts down before allocating", floor=8, exhaustive=True)
    run.rule("R5", "strdup/strndup/calloc return NULL when the allocation they rely on fails (no use of the result before a null test)", floor=3)

    # ---------------- R1 / R2 / R3 --------------------------------------------
    # alloc_memory with shouldFail inlined, folded over a heap model of the designation list and compared with the
    # reference semantics of the property: every pending designation sees every allocation; an index designation fires
    # at its allocation number; a location designation counts the allocations at its (file content, line) and fires
    # at its n-th; fired designations leave the list and are freed once; NULL iff one fired.
    sf = prog.fn(NODE + "::shouldFail")
    am = prog.fn(FA + "::alloc_memory")
    run.analysed(sf)
    run.analysed(am)
    ADDR = [5000, 6000, 7000]

    def fold_alloc(nodes, cur, file, line):
        """nodes: list of dicts(n, actual, file, line); returns (ret, chain, freed, counters, allocation counter, base calls)"""
        env = {"currentAllocNumber_": cur, "head_": ADDR[0] if nodes else 0, am.params[0]["name"]: 24, am.params[1]["name"]: ("str", file), am.params[2]["name"]: line}
        for i_, nd in enumerate(nodes):
            a_ = ADDR[i_]
            env.update({"@%d.allocNumberToFail_" % a_: nd["n"], "@%d.actualAllocNumber_" % a_: nd["actual"], "@%d.file_" % a_: ("str", nd["file"]) if nd["file"] is not None else 0,
                        "@%d.line_" % a_: nd["line"], "@%d.next_" % a_: ADDR[i_ + 1] if i_ + 1 < len(nodes) else 0})
        freed, base = [], []

        def strcmp(a_, b_):
            if not (isinstance(a_, tuple) and isinstance(b_, tuple) and a_[0] == b_[0] == "str"):
                return None
            return (a_[1] > b_[1]) - (a_[1] < b_[1])
        ev = Evaluator(prog, am, env=env, calls={"SimpleString::StrCmp": strcmp,
                                                  "TestMemoryAllocator::free_memory": lambda *a_: (freed.append(a_[0]), 0)[1], FA + "::free_memory": lambda *a_: (freed.append(a_[0]), 0)[1],
                                                  "TestMemoryAllocator::alloc_memory": lambda *a_: (base.append(a_), 4242)[1]})
        ev.heap_mode = True
        ev.inline = {NODE + "::shouldFail"} | {g.qn for g in prog.functions.values() if g.file == am.file and not g.cls and g.d.get("static")}
        ev.run_blocks(am.entry, max_steps=3000)
        chain, c = [], ev.env.get("head_")
        while c and len(chain) < 6:
            chain.append(c)
            c = ev.env.get("@%d.next_" % c)
        counters = [ev.env.get("@%d.actualAllocNumber_" % ADDR[i_]) for i_ in range(len(nodes))]
        return getattr(ev, "ret", None), chain, freed, counters, ev.env.get("currentAllocNumber_"), base

    def reference(nodes, cur, file, line):
        c = cur + 1
        fired, counters = [], []
        for i_, nd in enumerate(nodes):
            actual = nd["actual"]
            if nd["file"] is not None:
                if nd["file"] == file and nd["line"] == line:
                    actual += 1
                    if actual == nd["n"]:
                        fired.append(i_)
            elif c == nd["n"]:
                fired.append(i_)
            counters.append(actual)
        chain = [ADDR[i_] for i_ in range(len(nodes)) if i_ not in fired]
        return (0 if fired else 4242), chain, sorted(ADDR[i_] for i_ in fired), counters, c

    def idx(n):
        return {"n": n, "actual": 0, "file": None, "line": 0}

    def loc(n, file, line, actual=0):
        return {"n": n, "actual": actual, "file": file, "line": line}
    LISTS = [[], [idx(3)], [idx(4)], [loc(1, "a.c", 10)], [loc(2, "a.c", 10)], [loc(2, "a.c", 10, actual=1)], [loc(1, "a.c", 11)], [loc(1, "b.c", 10)], [loc(3, "a.c", 10)],
             [idx(3), idx(5)], [idx(5), idx(3)], [idx(3), idx(3)], [idx(3), loc(1, "a.c", 10)], [loc(1, "a.c", 10), idx(3)], [loc(2, "a.c", 10), loc(1, "a.c", 10)],
             [loc(2, "a.c", 10, actual=1), idx(9), loc(2, "a.c", 10)], [idx(9), idx(3), idx(8)], [idx(3), idx(9), idx(3)], [idx(9), loc(3, "a.c", 10, actual=1), idx(3)]]
    ncase = 0
    try:
        for nodes in LISTS:
            for cur in (2, 7):
                ncase += 1
                got = fold_alloc(nodes, cur, "a.c", 10)
                want = reference(nodes, cur, "a.c", 10)
                desc = "designations %s, allocation number %d at a.c:10" % ([("#%d" % nd["n"]) if nd["file"] is None else "%d-th at %s:%d (seen %d)" % (nd["n"], nd["file"], nd["line"], nd["actual"]) for nd in nodes], cur + 1)
                w2 = "" if got[3] == want[3] else "per-location counters end as %s, expected %s: designations behind a firing one (or at another location) miscount this allocation" % (got[3], want[3])
                fired_got = sorted(got[2])
                w1 = "" if fired_got == want[2] else "designations fired (freed) %s, expected %s" % (fired_got, want[2])
                w3 = ""
                if (got[0], got[1], got[4]) != (want[0], want[1], want[4]) or len(got[2]) != len(set(got[2])) or (want[0] == 4242) != (len(got[5]) == 1):
                    w3 = "returns %s with list %s, counter %s, base allocator called %d times, frees %s; expected %s, %s, %s" % (got[0], got[1], got[4], len(got[5]), got[2], want[0], want[1], want[4])
                elif got[5] and got[5][0][-3:] != (24, ("str", "a.c"), 10):
                    w3 = "the base allocator is called with %s, expected the caller's (size, file, line)" % (got[5][0],)
                if any(nd["file"] is not None for nd in nodes) or not nodes:
                    run.ob("R2", "every pending designation sees the allocation: %s" % desc, am.site, not w2, witness={"counters": got[3]}, what=w2)
                run.ob("R1", "designation kinds: %s" % desc, sf.site, not w1, witness={"fired": fired_got}, what=w1)
                run.ob("R3", "alloc_memory: %s" % desc, am.site, not w3, witness={"returns": got[0], "list": got[1], "freed": got[2], "counter": got[4]}, what=w3)
    except Unknown as u:
        run.broke("C15: alloc_memory cannot be folded over the designation-list model: %s" % u)
    # file names compared by content: the same text held in two different arrays
    try:
        got = fold_alloc([loc(1, "dir/a.c", 10)], 0, "dir/a.c", 10)
        okc = got[0] == 0
    except Unknown:
        okc = False
    run.ob("R1", "locations are compared by content (a designation for \"dir/a.c\":10 fires for an allocation whose file string is another array with that text)", sf.site, okc,
           what="" if okc else "file names are not compared by content: equal names held in different arrays would not match")
    chk = prog.fn(FA + "::checkAllFailedAllocsWereDone")
    run.analysed(chk)
    okc = True
    for p in enumerate_paths(chk, stop=lambda f, n: n["k"] in CALL_KINDS and (prog.callee_name(f, n) or "").endswith("failWith")):
        h = p.val().get("head_")
        if h is None or (p.end == "stop") != bool(h):
            okc = False
    run.ob("R3", "checkAllFailedAllocsWereDone fails the test iff a designation is left", chk.site, okc)
    clr = prog.fn(FA + "::clearFailedAllocs")
    run.analysed(clr)
    a = [(l, render(clr, r)) for l, r, n in assignments(clr)]
    frees = [render(clr, c) for c in clr.calls() if (prog.callee_name(clr, c) or "").endswith("free_memory")]
    ok = ("currentAllocNumber_", "0") in a and ("head_", "current->next_") in a and len(frees) == 1 and "current" in frees[0]
    okp = all(([x for x in assignments(clr, p)] or [("", None, None)])[-1][0] == "currentAllocNumber_" for p in enumerate_paths(clr))
    run.ob("R3", "clearFailedAllocs frees every node and resets the allocation counter on every path", clr.site, ok and okp, witness={"assign": a, "free": frees})
    for nm, meth in (("failAllocNumber", "failAtAllocNumber"), ("failNthAllocAt", "failNthAllocAt")):
        f = prog.fn(FA + "::" + nm)
        run.analysed(f)
        cs = [render(f, c) for c in f.calls() if ("newNode->" in render(f, c))]
        a = [(l, render(f, r)) for l, r, n in assignments(f)]
        want = "newNode->%s(%s, head_)" % (meth, ", ".join(q["name"] for q in f.params))
        run.ob("R3", "%s records its arguments in a new head node" % nm, f.site, cs == [want] and ("head_", "newNode") in a, witness={"call": cs, "assign": a})
    for nm in ("failAtAllocNumber", "failNthAllocAt"):
        f = prog.fn(NODE + "::" + nm)
        a = dict((l, render(f, r)) for l, r, n in assignments(f))
        pnn = [q["name"] for q in f.params]
        want = {"allocNumberToFail_": pnn[0]}
        if nm == "failNthAllocAt":
            want.update({"file_": pnn[1], "line_": pnn[2]})
        init_first = [render(f, c) for c in f.calls()][:1] == ["init(%s)" % pnn[-1]]
        run.ob("R3", "node %s stores (%s) after init(next)" % (nm, ", ".join(sorted(want))), f.site, a == want and init_first, witness=a)
    ini = prog.fn(NODE + "::init")
    a = dict((l, render(ini, r)) for l, r, n in assignments(ini))
    run.ob("R3", "node init clears both counters and the location, links next", ini.site,
           a == {"allocNumberToFail_": "0", "actualAllocNumber_": "0", "file_": "NULL", "line_": "0", "next_": ini.params[0]["name"]}, witness=a)

    # ---------------- R4 ----------------------------------------------------
    ml = prog.fn("cpputest_malloc_location")
    run.analysed(ml)
    pn_ = [q["name"] for q in ml.params]
    for c0 in (-5, -1, 0, 1, 2, 7):
        log = []
        ev = Evaluator(prog, ml, env={"malloc_out_of_memory_counter": c0, "malloc_count": 10, pn_[0]: 24, pn_[1]: 111000, pn_[2]: 77}, calls={
            "cpputest_malloc_set_out_of_memory": lambda *a_: (log.append("out-of-memory"), 0)[1],
            "cpputest_malloc_location_with_leak_detection": lambda *a_: (log.append(("allocate", a_)), 4242)[1]})
        try:
            ev.run_blocks(ml.entry, max_steps=300)
            after, r = ev.env.get("malloc_out_of_memory_counter"), getattr(ev, "ret", None)
        except Unknown as u:
            run.broke("C15.R4: cpputest_malloc_location cannot be folded: %s" % u)
            continue
        if c0 <= 0:
            want_after, fires = c0, 0
        else:
            want_after, fires = c0 - 1, 1 if c0 - 1 == 0 else 0
        want_log = (["out-of-memory"] if fires else []) + [("allocate", (24, 111000, 77))]
        ok = after == want_after and log == want_log and r == 4242
        run.ob("R4", "malloc with the countdown at %d: counter becomes %d, the null allocator is %sinstalled before the allocation is made with the caller's arguments" % (c0, want_after, "" if fires else "not "), ml.site, ok,
               witness={"counter_after": after, "log": [str(x) for x in log], "returns": r})
    from cpv.graph import callers_of
    cl = sorted({f.qn for f, c in callers_of(prog, "cpputest_malloc_location_with_leak_detection") if f.file.startswith("src/")})
    run.ob("R4", "only cpputest_malloc_location reaches the uncounted allocation entry (calloc/strdup/malloc all tick the countdown)", UNIT_C + ":cpputest_malloc_location_with_leak_detection",
           cl == ["cpputest_malloc_location"], witness=cl, what="" if cl == ["cpputest_malloc_location"] else "an allocation entry point bypasses the out-of-memory countdown")
    for fn_ in ("cpputest_calloc_location", "strdup_alloc", "cpputest_malloc"):
        f = prog.fn(fn_)
        cnt = [len([c for c in path_calls(prog, f, p) if prog.callee_name(f, c) == "cpputest_malloc_location"]) for p in enumerate_paths(f)]
        ok = bool(cnt) and all(c <= 1 for c in cnt) and any(c == 1 for c in cnt)
        run.ob("R4", "%s allocates through cpputest_malloc_location" % fn_, f.site, ok, witness=cnt)
    so = prog.fn("cpputest_malloc_set_out_of_memory")
    run.analysed(so)
    for p in enumerate_paths(so):
        saved = p.val().get("originalAllocator")
        a = [(l, render(so, r)) for l, r, n in assignments(so, p)]
        cs = [render(so, c) for c in path_calls(prog, so, p)]
        ok = (("originalAllocator", "getCurrentMallocAllocator()") in a) == (saved is False) and "setCurrentMallocAllocator(NullUnknownAllocator::defaultAllocator())" in cs
        run.ob("R4", "set_out_of_memory saves the current allocator once and installs the null allocator [%s]" % p.describe(so), so.site, ok, witness={"assign": a, "calls": cs})
    sn = prog.fn("cpputest_malloc_set_not_out_of_memory")
    run.analysed(sn)
    a = [(l, render(sn, r)) for l, r, n in assignments(sn)]
    cs = [render(sn, c) for c in sn.calls()]
    ok = ("malloc_out_of_memory_counter", "NO_COUNTDOWN") in a and ("originalAllocator", "NULL") in a and cs == ["setCurrentMallocAllocator(originalAllocator)"]
    run.ob("R4", "set_not_out_of_memory restores the saved allocator and clears countdown and saved pointer", sn.site, ok, witness={"assign": a, "calls": cs})
    sc = prog.fn("cpputest_malloc_set_out_of_memory_countdown")
    run.analysed(sc)
    for c0 in (0, 1, 3):
        ev = Evaluator(prog, sc, env={sc.params[0]["name"]: c0, "malloc_out_of_memory_counter": -1})
        fired = []
        ev.calls["cpputest_malloc_set_out_of_memory"] = lambda fired=fired: (fired.append(1), 0)[1]
        try:
            ev.run_blocks(sc.entry)
            got = (ev.env.get("malloc_out_of_memory_counter"), len(fired))
        except Unknown as u:
            got = "unknown: %s" % u
        run.ob("R4", "set_out_of_memory_countdown(%d)" % c0, sc.site, got == (c0, 1 if c0 == 0 else 0), witness={"counter, switched": got})
    nul = prog.fn("NullUnknownAllocator::alloc_memory")
    rets = [render(nul, nul.node(n.get("value"))) for n in nul.walk() if n["k"] == "ReturnStmt"]
    run.ob("R4", "the null allocator returns NULL", nul.site, rets == ["NULL"], witness=rets)

    # ---------------- R5 ----------------------------------------------------
    from .C05 import null_checked_uses
    for fn_ in ("strdup_alloc", "cpputest_calloc_location"):
        f = prog.fn(fn_)
        run.analysed(f)
        for inst, ok, wit, why in null_checked_uses(prog, f, ("cpputest_malloc_location",)):
            run.ob("R5", "%s: %s" % (fn_, inst), f.site, ok, witness=wit, what=why)
    for fn_ in ("cpputest_strdup_location", "cpputest_strndup_location"):
        f = prog.fn(fn_)
        rets = [render(f, f.node(n.get("value"))) for n in f.walk() if n["k"] == "ReturnStmt"]
        run.ob("R5", "%s returns strdup_alloc's result unchanged" % fn_, f.site, len(rets) == 1 and rets[0].startswith("strdup_alloc("), witness=rets)

"""C15 — injected out-of-memory hits exactly the designated allocations. DESIGN.md section 4, C15."""
import re
from .common import *
from cpv.ceval import Evaluator, Unknown

FA = "FailableMemoryAllocator"
NODE = "LocationToFailAllocNode"
UNIT_C = "src/CppUTest/TestHarness_c.cpp"


def writes_state(prog, f):
    """does function f write any member field (assignment / ++ / --)"""
    for n in f.walk():
        tgt = None
        if n["k"] in ("BinaryOperator", "CompoundAssignOperator") and n.get("op", "").endswith("=") and n["op"] not in ("==", "!=", "<=", ">="):
            tgt = f.node(n.get("lhs"))
        elif n["k"] == "UnaryOperator" and n.get("op") in ("++", "--"):
            tgt = n["c"][0]
        if tgt is not None:
            t = f.strip(tgt)
            if t is not None and t["k"] == "MemberExpr":
                return render(f, t)
    return None


def countdown_history_rule(prog, run, rid):
    """The out-of-memory countdown decided at the level of the C interface, whatever file-level variables hold it: histories of
    set_out_of_memory_countdown(n) / malloc / malloc_count_reset / set_not_out_of_memory are folded call by call, the file's variables
    carried from one fold to the next (initial values from their initialisers), against the reference: after countdown(n) the n-th
    allocation and every later one fail, switching off makes all succeed again, resetting the statistics counter changes nothing."""
    ml = prog.fn("cpputest_malloc_location")
    api = {"cd": prog.fn("cpputest_malloc_set_out_of_memory_countdown"), "m": ml, "not": prog.fn("cpputest_malloc_set_not_out_of_memory"), "reset": prog.fn("cpputest_malloc_count_reset"),
           "out": prog.fn("cpputest_malloc_set_out_of_memory")}
    for g in api.values():
        run.analysed(g)

    def const_of(n):
        while isinstance(n, dict):
            if "cv" in n:
                return int(n["cv"])
            if n.get("k") == "IntegerLiteral":
                return int(n["v"])
            if n.get("k") in ("CXXNullPtrLiteralExpr", "GNUNullExpr"):
                return 0
            if n.get("k") == "UnaryOperator" and n.get("op") == "-":
                v_ = const_of(n["c"][0])
                return None if v_ is None else -v_
            n = n["c"][0] if n.get("c") else None
        return None
    gnames, init = set(), {}
    for qn, gs in prog.globals.items():
        for g in gs:
            if g.get("file") == ml.file and g.get("def"):
                gnames.add(qn)
                v_ = const_of(g.get("init")) if g.get("init") is not None else 0
                if v_ is not None:
                    init[qn] = v_
    NULLA_ = 7900
    HIST = [[("cd", 2), "m", "m", "m", "m"], [("cd", 2), "m", "reset", "m", "m"], [("cd", 3), "reset", "m", "m", "reset", "m", "m"], [("cd", 1), "m", "not", "m", "m"], [("cd", 0), "m", "not", "m"],
            ["m", ("cd", 3), "m", "m", "not", "m", "m", "m"], [("cd", 2), "not", "m", "m", "m"], [("cd", 1), "m", "m", "not", ("cd", 2), "m", "m", "not", "m"],
            # the switches themselves: the null allocator while switched on, the allocator in force BEFORE THE FIRST switch put back
            ["out", "m", "not", "m"], ["out", "out", "m", "not", "m"], ["out", "not", "out", "not", "m"], ["out", "out", "out", "not", "out", "m", "not", "m"], [("cd", 5), "m", "out", "m", "not", "m", "m", "m", "m", "m"],
            [("cd", -1), "m", "m"], [("cd", 7), "m", "m"]]
    DEFAULT_ = 7200

    def saved_at_every_not(hist):
        left, forced = None, False
        for op in hist:
            name, arg = (op if isinstance(op, tuple) else (op, None))
            if name == "cd":
                left = arg if arg >= 0 else None
            elif name == "out":
                forced = True
            elif name == "m" and left is not None and left > 0:
                left -= 1
            elif name == "not":
                if not (forced or left == 0):
                    return False
                left, forced = None, False
        return True
    # (A) the allocator in force is the default one; (B) a custom allocator is in force - only histories in which every switching-off
    # follows a switching-on (nothing is saved otherwise, and setCurrentMallocAllocator(NULL) means "the default one")
    for hist, ORIG_ in [(h_, DEFAULT_) for h_ in HIST] + [(h_, 7100) for h_ in HIST if saved_at_every_not(h_)]:
        state, cell = dict(init), {"cur": ORIG_}
        hooks = {"getCurrentMallocAllocator": lambda *a_: cell["cur"], "setCurrentMallocAllocator": lambda v, *a_: (cell.__setitem__("cur", v if v else DEFAULT_), 0)[1],
                 "NullUnknownAllocator::defaultAllocator": lambda *a_: NULLA_, "cpputest_malloc_location_with_leak_detection": lambda *a_: 0 if cell["cur"] == NULLA_ else 70000}
        got, want, left, forced = [], [], None, False
        try:
            for op in hist:
                name, arg = (op if isinstance(op, tuple) else (op, None))
                f = api[name]
                env = dict(state)
                env.update({q["name"]: v_ for q, v_ in zip(f.params, ([arg] if name == "cd" else [24, 111000, 77]))})
                ev = Evaluator(prog, f, env=env, calls=hooks)
                ev.optional_stubs = set(hooks)
                ev.inline = {g.qn for g in prog.functions.values() if g.file == ml.file and not g.cls} - set(hooks) - {f.qn}
                ev.run_blocks(f.entry, max_steps=1500)
                state = {k_: v_ for k_, v_ in ev.env.items() if k_.split(".")[0].split("[")[0] in gnames}
                if name == "cd":
                    left = arg if arg >= 0 else None
                elif name == "not":
                    left, forced = None, False
                elif name == "out":
                    forced = True
                elif name == "m":
                    if left is not None and left > 0:
                        left -= 1
                    want.append(0 if (left == 0 or forced) else 70000)
                    got.append(getattr(ev, "ret", None))
                # the allocator in force after every step: the null allocator exactly while out of memory, else the original one
                want.append("null" if (left == 0 or forced) else "orig")
                got.append("null" if cell["cur"] == NULLA_ else ("orig" if cell["cur"] == ORIG_ else cell["cur"]))
        except Unknown as u:
            raise AnalysisBroken("C15.%s: the history %s cannot be folded at the level of the C interface: %s" % (rid, hist, u))
        show = lambda l_: ["NULL" if x == 0 else ("block" if x == 70000 else str(x)) for x in l_ if x not in ("null", "orig")] + ["allocator: " + ">".join(str(x) for x in l_ if x in ("null", "orig") or (isinstance(x, int) and x not in (0, 70000)))]
        run.ob(rid, "history %s folded call by call with %s allocator in force: the allocations answer %s" % ([o if isinstance(o, str) else "%s(%d)" % o for o in hist], "the default" if ORIG_ == DEFAULT_ else "a custom", show(want)), ml.site, got == want, witness=show(got),
               what="" if got == want else "the allocations answer %s, the countdown designates %s" % (show(got), show(want)))


def check(ctx, run):
    prog = ctx.program()
    run.assume("allocations reach FailableMemoryAllocator::alloc_memory once each (routing is C04.R8)")
    run.not_decided.append("which allocations a concrete workload performs; only the per-allocation transition of the designation list is decided")
    run.rule("R1", "designation kinds (alloc_memory with shouldFail inlined, folded over a heap model of 19 designation lists x 2 allocation numbers against the reference semantics): an index designation fires at its allocation number only, a location designation at the n-th allocation whose file content and line match", floor=30)
    run.rule("R2", "every pending designation sees every allocation: in the folded walk all per-location counters advance, also behind a designation that fires", floor=10)
    run.rule("R3", "alloc_memory: global counter +1 per call; a fired node is unlinked (prev->next_ = next | head_ = next) and freed once; NULL iff some node fired, else the base allocator's result; checkAllFailedAllocsWereDone fails iff a designation is left; clearFailedAllocs frees all and resets the counter", floor=8)
    run.rule("R4", "countdown folded over the partition {<0, 0, 1, >1}; set_not_out_of_memory restores the saved allocator; cpputest_malloc_location counts down before allocating", floor=8, exhaustive=True)
    run.rule("R5", "strdup/strndup/calloc return NULL when the allocation they rely on fails (no use of the result before a null test)", floor=3)

    # ---------------- R1 / R2 / R3 --------------------------------------------
    # alloc_memory with shouldFail inlined, folded over a heap model of the designation list and compared with the
    # reference semantics of the property: every pending designation sees every allocation; an index designation fires
    # at its allocation number; a location designation counts the allocations at its (file content, line) and fires
    # at its n-th; fired designations leave the list and are freed once; NULL iff one fired.
    sf = prog.fn(NODE + "::shouldFail")
    am = prog.fn(FA + "::alloc_memory")
    run.analysed(sf)
    run.analysed(am)
    ADDR = [5000, 6000, 7000]

    def fold_alloc(nodes, cur, file, line):
        """nodes: list of dicts(n, actual, file, line); returns (ret, chain, freed, counters, allocation counter, base calls)"""
        env = {"currentAllocNumber_": cur, "head_": ADDR[0] if nodes else 0, am.params[0]["name"]: 24, am.params[1]["name"]: ("str", file), am.params[2]["name"]: line}
        for i_, nd in enumerate(nodes):
            a_ = ADDR[i_]
            env.update({"@%d.allocNumberToFail_" % a_: nd["n"], "@%d.actualAllocNumber_" % a_: nd["actual"], "@%d.file_" % a_: ("str", nd["file"]) if nd["file"] is not None else 0,
                        "@%d.line_" % a_: nd["line"], "@%d.next_" % a_: ADDR[i_ + 1] if i_ + 1 < len(nodes) else 0})
        freed, base = [], []

        def strcmp(a_, b_):
            if not (isinstance(a_, tuple) and isinstance(b_, tuple) and a_[0] == b_[0] == "str"):
                return None
            return (a_[1] > b_[1]) - (a_[1] < b_[1])
        ev = Evaluator(prog, am, env=env, calls={"SimpleString::StrCmp": strcmp,
                                                  "TestMemoryAllocator::free_memory": lambda *a_: (freed.append(a_[0]), 0)[1], FA + "::free_memory": lambda *a_: (freed.append(a_[0]), 0)[1],
                                                  "TestMemoryAllocator::alloc_memory": lambda *a_: (base.append(a_), 4242)[1]})
        ev.heap_mode = True
        ev.objects = True       # (a file-local cursor / guard object that walks the list is constructed and folded)
        ev.inline = {NODE + "::shouldFail"} | {g.qn for g in prog.functions.values() if g.file == am.file and not g.cls and g.d.get("static")}
        ev.run_blocks(am.entry, max_steps=3000)
        chain, c = [], ev.env.get("head_")
        while c and len(chain) < 6:
            chain.append(c)
            c = ev.env.get("@%d.next_" % c)
        counters = [ev.env.get("@%d.actualAllocNumber_" % ADDR[i_]) for i_ in range(len(nodes))]
        return getattr(ev, "ret", None), chain, freed, counters, ev.env.get("currentAllocNumber_"), base

    def reference(nodes, cur, file, line):
        c = cur + 1
        fired, counters = [], []
        for i_, nd in enumerate(nodes):
            actual = nd["actual"]
            if nd["file"] is not None:
                if nd["file"] == file and nd["line"] == line:
                    actual += 1
                    if actual == nd["n"]:
                        fired.append(i_)
            elif c == nd["n"]:
                fired.append(i_)
            counters.append(actual)
        chain = [ADDR[i_] for i_ in range(len(nodes)) if i_ not in fired]
        return (0 if fired else 4242), chain, sorted(ADDR[i_] for i_ in fired), counters, c

    def idx(n):
        return {"n": n, "actual": 0, "file": None, "line": 0}

    def loc(n, file, line, actual=0):
        return {"n": n, "actual": actual, "file": file, "line": line}
    LISTS = [[], [idx(3)], [idx(4)], [loc(1, "a.c", 10)], [loc(2, "a.c", 10)], [loc(2, "a.c", 10, actual=1)], [loc(1, "a.c", 11)], [loc(1, "b.c", 10)], [loc(3, "a.c", 10)],
             [idx(3), idx(5)], [idx(5), idx(3)], [idx(3), idx(3)], [idx(3), loc(1, "a.c", 10)], [loc(1, "a.c", 10), idx(3)], [loc(2, "a.c", 10), loc(1, "a.c", 10)],
             [loc(2, "a.c", 10, actual=1), idx(9), loc(2, "a.c", 10)], [idx(9), idx(3), idx(8)], [idx(3), idx(9), idx(3)], [idx(9), loc(3, "a.c", 10, actual=1), idx(3)]]
    ncase = 0
    try:
        for nodes in LISTS:
            for cur in (2, 7):
                ncase += 1
                got = fold_alloc(nodes, cur, "a.c", 10)
                want = reference(nodes, cur, "a.c", 10)
                desc = "designations %s, allocation number %d at a.c:10" % ([("#%d" % nd["n"]) if nd["file"] is None else "%d-th at %s:%d (seen %d)" % (nd["n"], nd["file"], nd["line"], nd["actual"]) for nd in nodes], cur + 1)
                w2 = "" if got[3] == want[3] else "per-location counters end as %s, expected %s: designations behind a firing one (or at another location) miscount this allocation" % (got[3], want[3])
                fired_got = sorted(got[2])
                w1 = "" if fired_got == want[2] else "designations fired (freed) %s, expected %s" % (fired_got, want[2])
                w3 = ""
                if (got[0], got[1], got[4]) != (want[0], want[1], want[4]) or len(got[2]) != len(set(got[2])) or (want[0] == 4242) != (len(got[5]) == 1):
                    w3 = "returns %s with list %s, counter %s, base allocator called %d times, frees %s; expected %s, %s, %s" % (got[0], got[1], got[4], len(got[5]), got[2], want[0], want[1], want[4])
                elif got[5] and got[5][0][-3:] != (24, ("str", "a.c"), 10):
                    w3 = "the base allocator is called with %s, expected the caller's (size, file, line)" % (got[5][0],)
                if any(nd["file"] is not None for nd in nodes) or not nodes:
                    run.ob("R2", "every pending designation sees the allocation: %s" % desc, am.site, not w2, witness={"counters": got[3]}, what=w2)
                run.ob("R1", "designation kinds: %s" % desc, sf.site, not w1, witness={"fired": fired_got}, what=w1)
                run.ob("R3", "alloc_memory: %s" % desc, am.site, not w3, witness={"returns": got[0], "list": got[1], "freed": got[2], "counter": got[4]}, what=w3)
    except Unknown as u:
        run.broke("C15: alloc_memory cannot be folded over the designation-list model: %s" % u)
    # file names compared by content: the same text held in two different arrays
    try:
        got = fold_alloc([loc(1, "dir/a.c", 10)], 0, "dir/a.c", 10)
        okc = got[0] == 0
    except Unknown:
        okc = False
    run.ob("R1", "locations are compared by content (a designation for \"dir/a.c\":10 fires for an allocation whose file string is another array with that text)", sf.site, okc,
           what="" if okc else "file names are not compared by content: equal names held in different arrays would not match")
    chk = prog.fn(FA + "::checkAllFailedAllocsWereDone")
    run.analysed(chk)
    NINL = {g.qn for g in prog.functions.values() if g.qn.startswith((NODE + "::", FA + "::"))}

    def list_env(nodes):
        env = {"head_": ADDR[0] if nodes else 0, "currentAllocNumber_": 17}
        for i_, nd in enumerate(nodes):
            a_ = ADDR[i_]
            env.update({"@%d.allocNumberToFail_" % a_: nd["n"], "@%d.actualAllocNumber_" % a_: nd["actual"], "@%d.file_" % a_: ("str", nd["file"]) if nd["file"] is not None else 0,
                        "@%d.line_" % a_: nd["line"], "@%d.next_" % a_: ADDR[i_ + 1] if i_ + 1 < len(nodes) else 0})
        return env
    okc, wit = True, []
    try:
        for nodes, mention in (([], None), ([idx(3)], "3"), ([loc(2, "dir/a.c", 41)], "dir/a.c:41"), ([idx(7), loc(1, "b.c", 5)], "7"), ([loc(1, "b.c", 5), idx(7)], "b.c:5")):
            fails = []
            ev = Evaluator(prog, chk, env=list_env(nodes), calls=string_hooks({
                "UtestShell::getCurrent": lambda *a_: 300, "UtestShell::getName": lambda *a_: ("str", "t"), "UtestShell::getLineNumber": lambda *a_: 9,
                "UtestShell::failWith": lambda *a_: (fails.append(a_), 0)[1], "UtestShell::fail": lambda *a_: (fails.append(a_), 0)[1]}))
            ev.heap_mode = True
            ev.pass_object = True
            ev.run_blocks(chk.entry, max_steps=600)
            texts = [a_[-1] for nm_, a_, nd_ in ev.trace if nm_.startswith("construct FailFailure") and a_]
            good = len(fails) == (1 if nodes else 0)
            if good and nodes:
                good = bool(texts) and isinstance(texts[-1], tuple) and mention in texts[-1][1]
            wit.append({"designations left": len(nodes), "test failed": len(fails), "text": texts[-1][1] if texts and isinstance(texts[-1], tuple) else None})
            okc = okc and good
    except Unknown as u:
        raise AnalysisBroken("C15.R3: checkAllFailedAllocsWereDone cannot be folded: %s" % u)
    run.ob("R3", "checkAllFailedAllocsWereDone fails the test iff a designation is left", chk.site, okc, witness=wit,
           what="" if okc else "a designation that never fired goes unreported (or an empty list fails the test), or the message does not name the first pending designation")
    clr = prog.fn(FA + "::clearFailedAllocs")
    run.analysed(clr)
    okl, wit = True, []
    try:
        for nodes in ([], [idx(3)], [idx(3), loc(1, "a.c", 2)], [idx(3), idx(4), idx(5)]):
            freed = []
            ev = Evaluator(prog, clr, env=list_env(nodes), calls={"TestMemoryAllocator::free_memory": lambda *a_: (freed.append(a_[0]), 0)[1], FA + "::free_memory": lambda *a_: (freed.append(a_[0]), 0)[1]})
            ev.heap_mode = True
            ev.run_blocks(clr.entry, max_steps=1500)
            good = sorted(freed) == ADDR[:len(nodes)] and ev.env.get("head_") == 0 and ev.env.get("currentAllocNumber_") == 0
            wit.append({"nodes": len(nodes), "freed": freed, "head_": ev.env.get("head_"), "currentAllocNumber_": ev.env.get("currentAllocNumber_")})
            okl = okl and good
    except Unknown as u:
        raise AnalysisBroken("C15.R3: clearFailedAllocs cannot be folded: %s" % u)
    run.ob("R3", "clearFailedAllocs frees every node and resets the allocation counter on every path", clr.site, okl, witness=wit)
    for nm, args, want in (("failAllocNumber", (6,), {"allocNumberToFail_": 6, "actualAllocNumber_": 0, "file_": 0, "line_": 0}),
                           ("failNthAllocAt", (2, ("str", "x/y.c"), 77), {"allocNumberToFail_": 2, "actualAllocNumber_": 0, "file_": ("str", "x/y.c"), "line_": 77})):
        f = prog.fn(FA + "::" + nm)
        run.analysed(f)
        for old_head in (0, 5000):
            env = {"head_": old_head, "currentAllocNumber_": 3}
            env.update(dict(zip([q["name"] for q in f.params], args)))
            # the fresh node's memory holds garbage: every field must be written
            env.update({"@8000.%s" % k_: 1234567 for k_ in ("allocNumberToFail_", "actualAllocNumber_", "file_", "line_", "next_")})
            sizes = []
            ev = Evaluator(prog, f, env=env, calls={FA + "::allocMemoryLeakNode": lambda *a_: (sizes.append(a_[-1]), 8000)[1], "TestMemoryAllocator::allocMemoryLeakNode": lambda *a_: (sizes.append(a_[-1]), 8000)[1]})
            ev.heap_mode = True
            ev.inline = NINL - set(ev.calls)
            try:
                ev.run_blocks(f.entry, max_steps=600)
            except Unknown as u:
                raise AnalysisBroken("C15.R3: %s cannot be folded: %s" % (f.qn, u))
            got = {k_: ev.env.get("@8000." + k_) for k_ in list(want) + ["next_"]}
            ok = ev.env.get("head_") == 8000 and got == dict(want, next_=old_head)
            run.ob("R3", "%s%s with %s designations pending: a new head node records the designation with a zero hit counter and links the old list" % (nm, args[:1] + tuple(a_[1] if isinstance(a_, tuple) else a_ for a_ in args[1:]), "other" if old_head else "no"),
                   f.site, ok, witness={"head_": ev.env.get("head_"), "node": {k_: (v[1] if isinstance(v, tuple) else v) for k_, v in got.items()}},
                   what="" if ok else "the new designation is not the head of the list, loses the old list, or starts from stale fields")

    # ---------------- R4 ----------------------------------------------------
    ml = prog.fn("cpputest_malloc_location")
    run.analysed(ml)
    from cpv.graph import callers_of
    cl = sorted({f.qn for f, c in callers_of(prog, "cpputest_malloc_location_with_leak_detection") if f.file.startswith("src/")})
    run.ob("R4", "only cpputest_malloc_location reaches the uncounted allocation entry (calloc/strdup/malloc all tick the countdown)", UNIT_C + ":cpputest_malloc_location_with_leak_detection",
           cl == ["cpputest_malloc_location"], witness=cl, what="" if cl == ["cpputest_malloc_location"] else "an allocation entry point bypasses the out-of-memory countdown")
    for fn_ in ("cpputest_calloc_location", "strdup_alloc", "cpputest_malloc"):
        f = prog.fn(fn_)
        cnt = [len([c for c in path_calls(prog, f, p) if prog.callee_name(f, c) == "cpputest_malloc_location"]) for p in enumerate_paths(f)]
        ok = bool(cnt) and all(c <= 1 for c in cnt) and any(c == 1 for c in cnt)
        run.ob("R4", "%s allocates through cpputest_malloc_location" % fn_, f.site, ok, witness=cnt)
    countdown_history_rule(prog, run, "R4")
    nul = prog.fn("NullUnknownAllocator::alloc_memory")
    rets = getter_fold(prog, nul, "this", token=600)
    run.ob("R4", "the null allocator returns NULL (folded)", nul.site, rets == 0, witness=rets)

    # ---------------- R5 ----------------------------------------------------
    from .C05 import null_checked_uses
    for fn_ in ("strdup_alloc", "cpputest_calloc_location"):
        f = prog.fn(fn_)
        run.analysed(f)
        for inst, ok, wit, why in null_checked_uses(prog, f, ("cpputest_malloc_location",)):
            run.ob("R5", "%s: %s" % (fn_, inst), f.site, ok, witness=wit, what=why)
    for fn_ in ("cpputest_strdup_location", "cpputest_strndup_location"):
        f = prog.fn(fn_)
        rets = [render(f, f.node(n.get("value"))) for n in f.walk() if n["k"] == "ReturnStmt"]
        run.ob("R5", "%s returns strdup_alloc's result unchanged" % fn_, f.site, len(rets) == 1 and rets[0].startswith("strdup_alloc("), witness=rets)

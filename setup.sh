#!/bin/sh
# Build the LibTooling fact extractor (offline; clang 14 / llvm 14 from the image).
set -e
cd "$(dirname "$0")"
python3 -c "
import sys; sys.path.insert(0,'.')
from cpv import build
build.ensure_extractor()
print('cpv-extract ready:', build.EXTRACT)
"

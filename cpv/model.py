"""Program model over the facts emitted by cpv-extract: functions (typed AST + CFG),
records/class hierarchy, globals, function-pointer slots, call graph."""
import collections

CALL_KINDS = ("CallExpr", "CXXMemberCallExpr", "CXXOperatorCallExpr")
CAST_KINDS = ("ImplicitCastExpr", "CStyleCastExpr", "CXXStaticCastExpr", "CXXReinterpretCastExpr",
              "CXXFunctionalCastExpr", "CXXConstCastExpr", "CXXDynamicCastExpr")
TRANSPARENT = ("ParenExpr", "ExprWithCleanups", "MaterializeTemporaryExpr", "CXXBindTemporaryExpr", "ConstantExpr",
               "SubstNonTypeTemplateParmExpr")


class Function:
    def __init__(self, d, tu):
        self.d = d
        self.tu = tu
        self.qn = d["qn"]
        self.mn = d["mn"]
        self.name = d["name"]
        self.file = d["file"]
        self.line = d["line"]
        self.cls = d.get("cls")
        self.kind = d["kind"]
        self.params = d["params"]
        self.ret = d["ret"]
        self.nodes = {}
        self.parent = {}
        self.body = d.get("body")
        if self.body:
            self._index(self.body, None)
        for s in d.get("synth", []) or []:
            self._index(s, None)
        for i in d.get("inits", []) or []:
            if i.get("expr"):
                self._index(i["expr"], None)
        cfg = d.get("cfg") or {"entry": 0, "exit": 0, "blocks": [{"id": 0, "el": [], "succ": []}]}
        self.blocks = {b["id"]: b for b in cfg["blocks"]}
        self.entry = cfg["entry"]
        self.exit = cfg["exit"]
        self.preds = collections.defaultdict(list)
        for b in cfg["blocks"]:
            for s in b["succ"]:
                if s is not None:
                    self.preds[s].append(b["id"])
        self._where = None
        self._dom = None
        self._pdom = None

    def __repr__(self):
        return "<Function %s %s:%d>" % (self.qn, self.file, self.line)

    @property
    def site(self):
        return "%s:%s" % (self.file, self.qn)

    def _index(self, n, parent):
        stack = [(n, parent)]
        while stack:
            n, parent = stack.pop()
            if n is None:
                continue
            self.nodes[n["id"]] = n
            self.parent[n["id"]] = parent
            n["_fn"] = self
            for c in n.get("c", []) or []:
                if c is not None:
                    stack.append((c, n["id"]))
            for dd in n.get("decls", []) or []:
                if dd.get("init"):
                    stack.append((dd["init"], n["id"]))

    # ---- AST helpers -------------------------------------------------
    def node(self, i):
        return self.nodes.get(i) if i is not None else None

    def own(self, n):
        """the Function a node belongs to (differs from self for nodes spliced in from an inlined helper)"""
        return n.get("_fn", self) if n is not None else self

    def children(self, n):
        out = [c for c in (n.get("c") or []) if c is not None]
        for dd in n.get("decls", []) or []:
            if dd.get("init"):
                out.append(dd["init"])
        return out

    def walk(self, n=None):
        """pre-order traversal in source order"""
        if n is None:
            n = self.body
            roots = []
            for i in self.d.get("inits", []) or []:
                if i.get("expr"):
                    roots.append(i["expr"])
            if n:
                roots.append(n)
        else:
            roots = [n]
        for r in roots:
            stack = [r]
            while stack:
                x = stack.pop()
                yield x
                ch = self.children(x)
                stack.extend(reversed(ch))

    def ancestors(self, n):
        i = self.parent.get(n["id"])
        while i is not None:
            yield self.nodes[i]
            i = self.parent.get(i)

    def strip(self, n, casts=True):
        """strip parens/cleanups and (optionally) all casts"""
        while n is not None:
            k = n["k"]
            if k in TRANSPARENT and n.get("c"):
                n = n["c"][0]
            elif casts and k in CAST_KINDS and n.get("c"):
                n = n["c"][0]
            elif not casts and k == "ImplicitCastExpr" and n.get("ck") in ("LValueToRValue", "NoOp", "FunctionToPointerDecay", "ArrayToPointerDecay") and n.get("c"):
                n = n["c"][0]
            else:
                break
        return n

    def calls(self, n=None):
        return [x for x in self.walk(n) if x["k"] in CALL_KINDS or x["k"] in ("CXXConstructExpr", "CXXTemporaryObjectExpr")]

    def args(self, call):
        owner = call.get("_fn", self)
        return [owner.node(a) for a in call.get("args", [])]

    def loc(self, n):
        return "%s:%s" % (n.get("f", self.file), n.get("l", "?"))

    def single_inits(self):
        """locals that are initialised at their declaration and never written or address-taken afterwards:
        did -> init node. Used to see through introduced temporaries and renamed locals."""
        if getattr(self, "_single", None) is None:
            inits = {}
            for n in self.walk():
                if n["k"] == "DeclStmt":
                    for d in n.get("decls", []):
                        if d.get("init") is not None and not d.get("static") and d.get("dk") == "Var":
                            i0 = self.strip(d["init"], casts=False)
                            while i0 is not None and i0["k"] == "ImplicitCastExpr" and i0.get("ck") in ("ConstructorConversion", "NoOp") and i0.get("c"):
                                i0 = self.strip(i0["c"][0], casts=False)
                            if i0 is not None and i0["k"] in ("CXXConstructExpr", "CXXTemporaryObjectExpr"):
                                a = self.args(i0)
                                same = len(a) == 1 and a[0].get("ct", "").replace("const ", "").strip() == d.get("ct", "").replace("const ", "").strip()
                                if not same:
                                    continue     # an object constructed in place is not a name for another value
                            inits[d["did"]] = d["init"]
            bad = set()
            for n in self.walk():
                k = n["k"]
                tgt = None
                if k in ("BinaryOperator", "CompoundAssignOperator") and n.get("op", "").endswith("=") and n["op"] not in ("==", "!=", "<=", ">="):
                    tgt = self.node(n.get("lhs"))
                elif k == "UnaryOperator" and n.get("op") in ("++", "--", "&"):
                    tgt = n["c"][0]
                elif k == "CXXOperatorCallExpr" and n.get("callee") and n["callee"]["qn"].split("::")[-1] in ("operator=", "operator+=", "operator-=", "operator++", "operator--"):
                    a = self.args(n)
                    tgt = a[0] if a else None
                if tgt is not None:
                    t = self.strip(tgt)
                    if t is not None and t["k"] == "DeclRefExpr":
                        bad.add(t.get("did"))
                # passed by non-const reference: treat as written
                if k in ("CallExpr", "CXXMemberCallExpr", "CXXConstructExpr"):
                    pass
            self._single = {d: i for d, i in inits.items() if d not in bad}
        return self._single

    # ---- CFG helpers ---------------------------------------------------
    def where(self, nid):
        """(block id, index) of the CFG element holding statement nid (or None)."""
        if self._where is None:
            w = {}
            for b in self.blocks.values():
                for i, e in enumerate(b["el"]):
                    if isinstance(e, int):
                        w.setdefault(e, (b["id"], i))
                if b.get("term") is not None:
                    w.setdefault(("term", b["term"]), (b["id"], len(b["el"])))
            self._where = w
        return self._where.get(nid)

    def where_enclosing(self, n):
        """position of the nearest CFG element for node n (n itself or closest ancestor)"""
        w = self.where(n["id"])
        if w:
            return w
        for a in self.ancestors(n):
            w = self.where(a["id"])
            if w:
                return w
        return None

    def succs(self, b):
        return [s for s in self.blocks[b]["succ"] if s is not None]

    def reachable(self, start=None, removed_edges=(), removed_blocks=()):
        start = self.entry if start is None else start
        seen = set()
        if start in removed_blocks:
            return seen
        stack = [start]
        seen.add(start)
        while stack:
            b = stack.pop()
            for s in self.succs(b):
                if (b, s) in removed_edges or s in removed_blocks or s in seen:
                    continue
                seen.add(s)
                stack.append(s)
        return seen

    def dominators(self):
        if self._dom is None:
            self._dom = _dominators(self.entry, self.blocks.keys(), lambda b: self.succs(b))
        return self._dom

    def block_dominates(self, a, b):
        return a in self.dominators().get(b, ())

    def pos_dominates(self, pa, pb):
        """CFG position pa=(block,idx) dominates pb"""
        if pa[0] == pb[0]:
            return pa[1] <= pb[1]
        return self.block_dominates(pa[0], pb[0])

    def edge_conditions(self, pos):
        """Branch facts that hold whenever control reaches CFG position pos:
        list of (cond node, polarity). An edge B->S (S the true/false successor of B)
        is a fact for pos when pos's block becomes unreachable once that edge is the only
        one removed... (i.e. every path to pos uses the edge)."""
        out = []
        blk = pos[0]
        for b in self.blocks.values():
            if b.get("cond") is None or len(b["succ"]) != 2:
                continue
            if b.get("termk") in ("CXXTryStmt", "SwitchStmt"):
                continue
            t, f = b["succ"]
            if t == f:
                continue
            for pol, s, other in ((True, t, f), (False, f, t)):
                if s is None:
                    continue
                # all paths to blk pass edge (b,s)  <=>  blk unreachable without that edge
                if blk == b["id"]:
                    continue
                r = self.reachable(removed_edges={(b["id"], s)})
                if blk not in r:
                    out.append((self.nodes[b["cond"]], pol, b["id"]))
        return out


def _dominators(entry, blocks, succs):
    blocks = list(blocks)
    preds = collections.defaultdict(list)
    for b in blocks:
        for s in succs(b):
            preds[s].append(b)
    # restrict to reachable
    seen = {entry}
    st = [entry]
    order = []
    while st:
        b = st.pop()
        order.append(b)
        for s in succs(b):
            if s not in seen:
                seen.add(s)
                st.append(s)
    dom = {b: set(seen) for b in seen}
    dom[entry] = {entry}
    changed = True
    while changed:
        changed = False
        for b in order:
            if b == entry:
                continue
            ps = [p for p in preds[b] if p in seen]
            new = set.intersection(*[dom[p] for p in ps]) if ps else set()
            new = new | {b}
            if new != dom[b]:
                dom[b] = new
                changed = True
    return dom


class Program:
    def __init__(self, tus, root="/repo"):
        self.root = root
        self.tus = tus
        self.functions = {}      # mn -> Function
        self.by_qn = collections.defaultdict(list)
        self.records = {}
        self.enums = {}
        self.globals = collections.defaultdict(list)
        self.macros = {}
        self.types = {}
        self.fdecls = {}
        self.units = []
        for tu in tus:
            self.units.append(tu["tu"])
            for fd in tu["functions"]:
                if fd["mn"] in self.functions:
                    continue
                f = Function(fd, tu["tu"])
                self.functions[f.mn] = f
                self.by_qn[f.qn].append(f)
            for r in tu["records"]:
                old = self.records.get(r["qn"])
                if old is None or len(r.get("methods", [])) > len(old.get("methods", [])):
                    self.records[r["qn"]] = r
            for e in tu["enums"]:
                self.enums.setdefault(e["qn"], e)
            for g in tu["globals"]:
                self.globals[g["qn"]].append(g)
            for m in tu["macros"]:
                self.macros.setdefault(m["name"], []).append(m)
            for k, v in tu["types"].items():
                self.types.setdefault(k, v)
            for d in tu["fdecls"]:
                self.fdecls.setdefault(d["mn"], d)
        self._subclasses = None
        self._overriders = None
        self._slots = None
        self._cg = None

    # ---- lookup ---------------------------------------------------------
    def fn(self, qn, nparams=None, sig=None, required=True):
        c = self.by_qn.get(qn, [])
        if nparams is not None:
            c = [f for f in c if len(f.params) == nparams]
        if sig is not None:
            c = [f for f in c if sig(f)]
        if len(c) == 1:
            r_ = getattr(self, "_run", None)
            if r_ is not None:
                r_.analysed(c[0])       # (whatever a rule looks up by name is part of what it analysed)
            return c[0]
        if not c:
            if required:
                from .build import AnalysisBroken
                raise AnalysisBroken("anchor vanished: no definition of %s found in the analysed units" % qn)
            return None
        if required:
            from .build import AnalysisBroken
            raise AnalysisBroken("anchor ambiguous: %d definitions of %s" % (len(c), qn))
        return None

    def fns(self, qn):
        r_ = getattr(self, "_run", None)
        if r_ is not None:
            for f_ in self.by_qn.get(qn, []):
                r_.analysed(f_)
        return list(self.by_qn.get(qn, []))

    def methods_of(self, cls):
        return [f for f in self.functions.values() if f.cls == cls]

    # ---- class hierarchy --------------------------------------------------
    def subclasses(self, cls, transitive=True):
        if self._subclasses is None:
            sc = collections.defaultdict(set)
            for r in self.records.values():
                for b in r.get("bases", []):
                    sc[b].add(r["qn"])
            self._subclasses = sc
        out = set()
        st = [cls]
        while st:
            c = st.pop()
            for s in self._subclasses.get(c, ()):
                if s not in out:
                    out.add(s)
                    if transitive:
                        st.append(s)
        return out

    def overriders(self, mn):
        """all method mangled names that (transitively) override mn, plus mn itself"""
        if self._overriders is None:
            ov = collections.defaultdict(set)
            for r in self.records.values():
                for m in r.get("methods", []):
                    for o in m.get("overrides", []):
                        ov[o].add(m["mn"])
            self._overriders = ov
        out = {mn}
        st = [mn]
        while st:
            x = st.pop()
            for y in self._overriders.get(x, ()):
                if y not in out:
                    out.add(y)
                    st.append(y)
        return out

    def method_decl(self, mn):
        for r in self.records.values():
            for m in r.get("methods", []):
                if m["mn"] == mn:
                    return r, m
        return None, None

    # ---- function pointer slots --------------------------------------------
    def slots(self):
        """global function-pointer variable qn -> set of function mn ever stored into it
        (initialiser or assignment anywhere in the analysed program)."""
        if self._slots is None:
            sl = collections.defaultdict(set)
            for qn, gs in self.globals.items():
                for g in gs:
                    init = g.get("init")
                    if init is None:
                        continue
                    for fnref in _fn_refs(init):
                        # only direct `var = fn` initialisers (not struct tables)
                        sl[qn].add(fnref)
            for f in self.functions.values():
                for n in f.walk():
                    if n["k"] == "BinaryOperator" and n.get("op") == "=":
                        lhs = f.strip(f.node(n.get("lhs")))
                        rhs = f.node(n.get("rhs"))
                        if lhs is None or rhs is None:
                            continue
                        if lhs["k"] == "DeclRefExpr" and lhs.get("global"):
                            for fnref in _fn_refs(rhs):
                                sl[lhs["qn"]].add(fnref)
                            r2 = f.strip(rhs)
                            if r2 is not None and r2["k"] == "DeclRefExpr" and r2.get("global") and r2["dk"] == "Var":
                                sl[lhs["qn"]].add(("var", r2["qn"]))
            # resolve var->var copies
            changed = True
            while changed:
                changed = False
                for k, v in list(sl.items()):
                    for x in list(v):
                        if isinstance(x, tuple):
                            add = {y for y in sl.get(x[1], ()) if not isinstance(y, tuple)}
                            if not add <= v:
                                v |= add
                                changed = True
            self._slots = {k: {x for x in v if not isinstance(x, tuple)} for k, v in sl.items()}
        return self._slots

    # ---- call resolution ----------------------------------------------------
    def call_targets(self, f, call):
        """resolved targets of a call node: list of (mn, qn, how)"""
        f = call.get("_fn", f)
        k = call["k"]
        if k in ("CXXConstructExpr", "CXXTemporaryObjectExpr"):
            c = call.get("ctor")
            return [(c["mn"], c["qn"], "ctor")] if c else []
        c = call.get("callee")
        if c:
            if c.get("dispatch") == "virtual":
                out = []
                for mn in sorted(self.overriders(c["mn"])):
                    g = self.functions.get(mn)
                    if g is not None:
                        out.append((mn, g.qn, "virtual"))
                    elif mn == c["mn"]:
                        out.append((mn, c["qn"], "virtual-undefined"))
                return out
            return [(c["mn"], c["qn"], "direct")]
        fnx = f.strip(f.node(call.get("fn")))
        if fnx is not None and fnx["k"] == "UnaryOperator" and fnx.get("op") == "*":
            fnx = f.strip(fnx["c"][0])
        if fnx is not None and fnx["k"] == "DeclRefExpr" and fnx.get("global"):
            tg = self.slots().get(fnx["qn"], set())
            return [(mn, self.functions[mn].qn if mn in self.functions else mn, "slot:" + fnx["qn"]) for mn in sorted(tg)]
        return []

    def callee_name(self, f, call):
        """display/qualified name of what is called: function qn, or slot variable qn, or member name"""
        f = call.get("_fn", f)
        if call["k"] in ("CXXConstructExpr", "CXXTemporaryObjectExpr"):
            return call["ctor"]["qn"] if call.get("ctor") else None
        c = call.get("callee")
        if c:
            return c["qn"]
        fnx = f.strip(f.node(call.get("fn")))
        if fnx is not None and fnx["k"] == "UnaryOperator" and fnx.get("op") == "*":
            fnx = f.strip(fnx["c"][0])
        if fnx is not None and fnx["k"] in ("DeclRefExpr", "MemberExpr"):
            return fnx.get("qn")
        return None

    def callgraph(self):
        if self._cg is None:
            cg = {}
            for f in self.functions.values():
                edges = []
                for c in f.calls():
                    for mn, qn, how in self.call_targets(f, c):
                        edges.append((mn, c["id"], how))
                # implicit destructor calls
                for b in f.blocks.values():
                    for e in b["el"]:
                        if isinstance(e, dict) and e.get("mn") and e.get("e", "").endswith("dtor"):
                            edges.append((e["mn"], None, "dtor"))
                cg[f.mn] = edges
            self._cg = cg
        return self._cg


def _fn_refs(n):
    """function mangled names referenced by an initialiser expression whose value is the function itself"""
    out = []
    st = [n]
    while st:
        x = st.pop()
        if x is None:
            continue
        if x["k"] == "DeclRefExpr" and x.get("dk") in ("Function", "CXXMethod") and x.get("mn"):
            out.append(x["mn"])
        elif x["k"] in TRANSPARENT or x["k"] in CAST_KINDS or (x["k"] == "UnaryOperator" and x.get("op") == "&"):
            st.extend(x.get("c") or [])
    return out

"""Exhaustive evaluation of pure integer code fragments over small finite domains (PARTITION).
An expression/CFG fragment is folded with C integer semantics (LP64 widths taken from the type
table emitted by clang) for each value of a finite domain; unknown operands make the result Unknown.
Nothing of the analysed program is executed: this is constant folding over every element of a
finite partition of the input space."""
import re
from .build import AnalysisBroken
from .expr import render
from .model import CAST_KINDS, TRANSPARENT


# functions of the C library / platform that rules stub although the analysed units only call them
EXTERNAL_NAMES = {"sigsetjmp", "__sigsetjmp", "siglongjmp", "_longjmp", "__longjmp_chk", "fork", "waitpid", "kill", "_exit", "exit", "_Exit", "abort", "longjmp", "setjmp", "_setjmp", "pthread_mutex_lock", "pthread_mutex_unlock", "pthread_mutex_init",
                  "pthread_mutex_destroy", "vsnprintf", "memset", "memcpy", "strlen", "malloc", "free", "realloc", "fopen", "fputs", "fclose", "fflush", "time", "localtime", "strftime"}


DECLINE = ("decline",)      # returned by a stub that does not answer for this receiver (see the call branch)


class Unknown(Exception):
    pass


class Thrown(Unknown):
    """a throw expression was evaluated (by an inlined callee, or by a hook standing for the environment); `exc` is the
    thrown type. run_blocks transfers control to the matching handler of the innermost enclosing try, or ends with "throw" """
    def __init__(self, msg="", exc=None):
        Unknown.__init__(self, msg)
        self.exc = exc


class Evaluator:
    def load_const_global(self, qn, key):
        """the cells of a const-qualified global (a lookup table) from its initialiser: they hold these values on every
        run. Written into this evaluator and its ancestors; returns True when the global is such a table."""
        gs = [g for g in self.prog.globals.get(qn, []) if g.get("init") is not None and re.match(r"^(static )?const\b|\bconst\b", g.get("ct") or "")]
        if not gs:
            return False
        cells = {}

        def fill(node, k_):
            x = node
            while x is not None and x["k"] in ("ImplicitCastExpr", "ConstantExpr", "ParenExpr", "ExprWithCleanups", "CStyleCastExpr", "CXXStaticCastExpr") and x.get("c"):
                if "cv" in x and x["k"] != "ImplicitCastExpr":
                    break
                x = x["c"][0]
            if x is None:
                return
            if x["k"] == "InitListExpr":
                ct_ = (x.get("ct") or "").replace("const ", "").strip()
                ti = self.prog.types.get(x.get("ct")) or self.prog.types.get(ct_) or {}
                if ti.get("k") == "array":
                    ch = x.get("c", [])
                    for i_ in range(ti.get("extent", len(ch))):
                        if i_ < len(ch):
                            fill(ch[i_], "%s[%d]" % (k_, i_))
                        elif ti.get("extent", 0) < 4096:
                            cells["%s[%d]" % (k_, i_)] = 0
                elif ct_ in self.prog.records:
                    for fl, c_ in zip(self.prog.records[ct_].get("fields", []), x.get("c", [])):
                        fill(c_, "%s.%s" % (k_, fl["name"]))
                return
            if x["k"] == "StringLiteral":
                cells[k_] = ("str", x.get("v"))
            elif "cv" in x:
                cells[k_] = x["cv"]
            elif x["k"] == "DeclRefExpr" and x.get("dk") in ("Function", "CXXMethod"):
                cells[k_] = ("fn", x.get("qn") or x.get("name"))
        fill(gs[0]["init"], key)
        e_ = self
        while e_ is not None:
            for k_, v in cells.items():
                e_.env.setdefault(k_, v)
            e_ = getattr(e_, "_parent", None)
        return bool(cells)

    # ---- model drift: the rule's model of an object must name fields the program still has --------------------
    def _root(self):
        r = self
        while getattr(r, "_parent", None) is not None:
            r = r._parent
        return r

    def check_model(self):
        """called once on the outermost evaluator before it runs: the member names the rule put into the environment
        (fields of `this`, fields of heap objects `@addr.f`) must exist in the program. A private member that was renamed
        or moved makes the model meaningless: that is ANALYSIS-BROKEN (the rule must be re-anchored), never a verdict."""
        if getattr(self, "_model_checked", False) or getattr(self, "_parent", None) is not None:
            return
        self._model_checked = True
        prog, f = self.prog, self.f
        if not hasattr(prog, "_fields_of"):
            prog._fields_of = {qn: {fl["name"] for fl in r.get("fields", [])} for qn, r in prog.records.items()}
            prog._all_fields = set().union(*prog._fields_of.values()) if prog._fields_of else set()
        # every stub the rule installs must stand for something the program has: a stub for a function that was renamed
        # is never called, and the rule would judge the absence of the call
        if not hasattr(prog, "_callable_names"):
            cn = {g.qn for g in prog.functions.values()}
            meths = {}
            for qn, r in prog.records.items():
                meths[qn] = {m_["name"] for m_ in r.get("methods", [])}
            prog._callable_names, prog._methods_of = cn, meths
        for nm in (self.calls or {}):
            if not isinstance(nm, str) or nm in prog._callable_names or nm in getattr(self, "optional_stubs", ()):
                continue        # (optional: the rule also models the state behind such a stub, so it may be inlined away)
            if "::" in nm:
                cls_, mname = nm.rsplit("::", 1)
                c_, found = cls_, False
                for _ in range(8):
                    if mname in prog._methods_of.get(c_, ()) or (c_ + "::" + mname) in prog._callable_names or mname in prog._fields_of.get(c_, ()):
                        found = True
                        break
                    bs = prog.records.get(c_, {}).get("bases") or []
                    if not bs:
                        break
                    c_ = bs[0]
                if not found and cls_ in prog.records:
                    raise AnalysisBroken("the rule installs a stub for %s, which the program does not declare (renamed or removed?): the rule must be re-anchored" % nm)
            elif nm in prog.globals or nm.startswith(("operator", "__")) or nm in EXTERNAL_NAMES or nm in {q["name"] for q in f.params}:
                continue        # (a global function pointer, an operator, a libc function, a function-pointer parameter)
            elif re.match(r"^[A-Za-z_]\w*$", nm) and not getattr(prog, "partial", False):
                raise AnalysisBroken("the rule installs a stub for %s, which the program does not declare (renamed or removed?): the rule must be re-anchored" % nm)
        objs = {}
        for k in self.env:
            m = re.match(r"^@(-?\d+)\.([A-Za-z_]\w*)", k) if isinstance(k, str) else None
            if m:
                objs.setdefault(m.group(1), set()).add(m.group(2))
        self._model_objs = objs
        for addr, names in objs.items():
            if not any(names <= fs for fs in prog._fields_of.values()):
                gone = sorted(n_ for n_ in names if n_ not in prog._all_fields) or sorted(names)
                raise AnalysisBroken("the rule's model of the object at %s uses members %s that no single class of the program has (renamed or moved member %s?): the rule must be re-anchored" % (addr, sorted(names), gone[:3]))
        if f.cls and f.cls in prog._fields_of:
            own = set(prog._fields_of[f.cls])
            c_ = f.cls
            for _ in range(8):
                bs = prog.records.get(c_, {}).get("bases") or []
                if not bs:
                    break
                c_ = bs[0]
                own |= prog._fields_of.get(c_, set())
            locs = {q["name"] for q in f.params}
            for gn in f.walk():
                if gn["k"] == "DeclStmt":
                    locs |= {d["name"] for d in gn.get("decls", [])}
            for k in self.env:
                if isinstance(k, str) and re.match(r"^[A-Za-z]\w*_$", k) and k not in locs and k not in own and k not in prog.globals and k in () :
                    pass
            stale = [k for k in self.env if isinstance(k, str) and re.match(r"^[A-Za-z]\w*_$", k) and k not in locs and k not in own and k not in prog.globals and k not in prog._all_fields]
            if stale:
                raise AnalysisBroken("the rule's model of %s sets members %s that the program no longer has (renamed or moved?): the rule must be re-anchored" % (f.cls, sorted(stale)[:4]))

    def check_drift(self, key):
        """a read of `@addr.f` that the model never held although it models other members of that object, where f is a
        member the program has: the model is incomplete for this code (a member was added or renamed)"""
        m = re.match(r"^@(-?\d+)\.([A-Za-z_]\w*)$", key) if isinstance(key, str) else None
        if not m:
            return
        r = self._root()
        objs = getattr(r, "_model_objs", None)
        if objs and m.group(1) in objs and m.group(2) not in objs[m.group(1)] and m.group(2) in getattr(self.prog, "_all_fields", ()):
            written = {k_ for k_, v_ in r.stores} | {k_ for k_, v_ in self.stores}
            if key not in written:
                raise AnalysisBroken("the code reads member %s of the object at %s, which the rule's model (members %s) does not hold: a member was renamed or added and the rule must be re-anchored" % (m.group(2), m.group(1), sorted(objs[m.group(1)])))

    def note_absent(self, key):
        """a read of a memory cell the model does not hold (element of an array / string / argv beyond what exists):
        remembered on the outermost evaluator, the Unknown raised for it may be absorbed on the way up"""
        if isinstance(key, str) and re.match(r"^[A-Za-z_@]\w*\[-?\d+\]$", key):
            r = self
            while getattr(r, "_parent", None) is not None:
                r = r._parent
            if not hasattr(r, "absent_reads"):
                r.absent_reads = []
            r.absent_reads.append(key)

    def note_null(self, text):
        """a member access through a pointer that folded to 0: remembered on the outermost evaluator, because the Unknown
        raised for it may be absorbed by an enclosing assignment (x = p->f only forgets x)"""
        r = self
        while getattr(r, "_parent", None) is not None:
            r = r._parent
        if not hasattr(r, "null_derefs"):
            r.null_derefs = []
        r.null_derefs.append("%s in %s" % (text, self.f.qn))

    def __init__(self, prog, f, env=None, calls=None):
        r_ = getattr(prog, "_run", None)
        if r_ is not None:
            r_.analysed(f)              # every function that is folded (also when inlined into another fold) was analysed
        self.prog = prog
        self.f = f
        self.env = dict(env or {})     # rendered lvalue -> int
        self.calls = calls or {}        # callee qn -> python function(args ints) -> int
        self.stores = []                # (lvalue key, value) in order
        self.trace = []                 # calls seen: (name, [args rendered])

    def tinfo(self, ct):
        t = self.prog.types.get(ct)
        if t is None and ct and ct.startswith("const "):
            t = self.prog.types.get(ct[6:])
        return t

    def wrap(self, v, ct):
        if not isinstance(v, int):
            return v
        t = self.tinfo(ct)
        if t is None:
            return v
        k = t.get("k")
        if k == "bool":
            return 1 if v else 0
        if k in ("int", "enum") and "bits" in t:
            bits = t["bits"]
            v &= (1 << bits) - 1
            if t.get("signed") and v >= (1 << (bits - 1)):
                v -= (1 << bits)
            return v
        return v

    def as_ptr(self, v):
        """a string literal value used as a pointer: its characters become memory of a fresh base"""
        if isinstance(v, tuple) and v and v[0] == "str" and isinstance(v[1], str):
            root = self
            while getattr(root, "_parent", None) is not None:
                root = root._parent
            if not hasattr(root, "_strtab"):
                root._strtab = {}
            base = "L%d" % root._strtab.setdefault(v[1], len(root._strtab) + 1)      # one base per distinct text of this fold
            e_ = self
            while e_ is not None:
                # (the characters are memory of the whole fold: a pointer into them may be returned to a caller)
                if base + "[0]" not in e_.env:
                    for i_, ch in enumerate(v[1]):
                        o = ord(ch)
                        e_.env["%s[%d]" % (base, i_)] = o - 256 if o > 127 else o
                    e_.env["%s[%d]" % (base, len(v[1]))] = 0
                e_ = getattr(e_, "_parent", None)
            return ("ptr", base, 0)
        return v

    def cstring(self, v):
        """the text of a C string value: a string value itself, or the cells from an element pointer up to the terminator;
        a cell the model does not hold is a read outside the object"""
        if isinstance(v, tuple) and v and v[0] == "str":
            return v[1]
        if isinstance(v, tuple) and v and v[0] == "ptr":
            out, i_ = [], v[2]
            while True:
                key = "%s[%d]" % (v[1], i_)
                if key not in self.env or not isinstance(self.env[key], int):
                    raise Unknown("read outside the object: %s" % key)
                c = self.env[key]
                if c == 0:
                    return "".join(out)
                out.append(chr(c & 0xff))
                i_ += 1
                if len(out) > 4096:
                    raise Unknown("unterminated string at %s" % v[1])
        raise Unknown("not a string: %r" % (v,))

    def lkey(self, n):
        """key of an lvalue expression (see _lkey_raw); a by-reference parameter bound to a record object of the caller is
        an alias of that object: keys rooted at the parameter are rewritten to the caller's designator"""
        k_ = self._lkey_raw(n)
        al = getattr(self, "alias", None)
        if al and isinstance(k_, str):
            root = k_.split(".")[0].split("[")[0]
            if root in al:
                k_ = al[root] + k_[len(root):]
        return k_

    def _lkey_raw(self, n):
        """key of an lvalue expression: subscripts are evaluated; in heap mode `p->f` is keyed by the value of p"""
        f = self.f
        n = f.strip(n, casts=False)
        while n is not None and n["k"] in CAST_KINDS and n.get("ck") in ("NoOp", "ArrayToPointerDecay", "BitCast") and n.get("c"):
            n = f.strip(n["c"][0], casts=False)
        if n["k"] in ("CallExpr", "CXXMemberCallExpr"):
            # the object a call returns by reference: the call is folded (once per evaluation of this designator) and names it
            # (the call itself is folded by whoever needs its value; this only names what it returned)
            rk_ = (getattr(self, "_ret_keys", None) or {}).get(n["id"])
            if rk_ is not None:
                return rk_
            raise Unknown("object returned by %s" % render(f, n))
        if n["k"] == "ArraySubscriptExpr":
            bn = f.node(n["base"])
            bs = f.strip(bn, casts=True)
            if bs is not None and bs["k"] in ("CallExpr", "CXXMemberCallExpr"):
                # the base is a pointer value returned by a call (getBuffer()[i])
                pv = self.as_ptr(self.ev(bn))
                idx = self.ev(f.node(n["idx"]))
                if isinstance(pv, tuple) and pv[0] == "ptr":
                    return "%s[%d]" % (pv[1], pv[2] + idx)
                raise Unknown("subscript of %s" % render(f, bn))
            try:
                base = self.lkey(bn)
            except Unknown:
                base = render(f, bn)
            idx = self.ev(f.node(n["idx"]))
            if getattr(self, "on_subscript", None):
                self.on_subscript(base, idx, n)
            if base in self.env and isinstance(self.env[base], tuple):
                tp = self.as_ptr(self.env[base])
                if tp[0] == "ptr":
                    return "%s[%d]" % (tp[1], tp[2] + idx)
            if getattr(self, "heap_mode", False) and base in self.env and isinstance(self.env[base], int) and not base.endswith("]"):
                # pointer variable used as an array: key by the pointer's value
                return "@%d[%d]" % (self.env[base], idx)
            return "%s[%d]" % (base, idx)
        if n["k"] == "UnaryOperator" and n.get("op") == "*":
            try:
                pv = self.as_ptr(self.ev(n["c"][0]))
            except Unknown:
                pv = None
            if isinstance(pv, tuple) and pv[0] == "ptr":
                return "%s[%d]" % (pv[1], pv[2])
            if isinstance(pv, tuple) and pv[0] == "ref":
                return pv[1]          # a pointer that was formed as &lvalue designates that lvalue
            if isinstance(pv, str):
                return pv             # heap mode: &lvalue is the lvalue's key
            return "*" + render(f, n["c"][0])
        if n["k"] == "MemberExpr" and n.get("base") is not None:
            bn = f.node(n["base"])
            base = f.strip(bn)
            if base is not None and base["k"] == "CXXThisExpr":
                return n["name"]
            if n.get("arrow"):
                try:
                    pv_ = self.as_ptr(self.ev(bn))
                except Unknown:
                    pv_ = None
                if isinstance(pv_, tuple) and pv_[0] == "ptr":
                    return "%s[%d].%s" % (pv_[1], pv_[2], n["name"])       # p->f with p an element pointer
                if isinstance(pv_, tuple) and pv_[0] == "ref":
                    return "%s.%s" % (pv_[1], n["name"])
                if getattr(self, "heap_mode", False):
                    v = pv_            # (the base is folded once: it may be a call)
                    if isinstance(v, int):
                        if v == 0:
                            self.note_null(render(f, n))
                            raise Unknown("null dereference: %s" % render(f, n))
                        return "@%d.%s" % (v, n["name"])
                    if isinstance(v, str):
                        return "%s.%s" % (v, n["name"])
                    if isinstance(v, tuple):
                        return "%s[%d].%s" % (v[1], v[2], n["name"])
                return render(f, n)
            try:
                return "%s.%s" % (self.lkey(bn), n["name"])
            except Unknown:
                return render(f, n)
        return render(f, n)

    def ev(self, n):
        f = self.f
        k = n["k"]
        if "cv" in n and k not in ("DeclRefExpr",):
            v = n["cv"]
            return int(v)
        if k in TRANSPARENT or k in ("CXXDefaultArgExpr",):
            return self.ev(n["c"][0])
        if k in CAST_KINDS:
            ck = n.get("ck")
            if ck == "LValueToRValue":
                inner = f.strip(n["c"][0], casts=False)
                if inner is not None and inner["k"] in ("ConditionalOperator", "BinaryOperator", "CompoundAssignOperator") or \
                        (inner is not None and inner["k"] == "UnaryOperator" and inner.get("op") in ("++", "--")):
                    return self.ev(inner)
                key = self.lkey(n["c"][0])
                if key in self.env:
                    v = self.env[key]
                    if isinstance(v, int) and inner is not None and ((inner["k"] == "UnaryOperator" and inner.get("op") == "*") or inner["k"] == "ArraySubscriptExpr") \
                            and (self.tinfo(n.get("ct")) or {}).get("bits") == 8:
                        return self.wrap(v, n.get("ct"))     # *(const unsigned char*)p / ((const unsigned char*)p)[i] read the byte as unsigned
                    return v
                self.note_absent(key)
                raise Unknown(key)
            if ck in ("IntegralCast", "NoOp", "IntegralToBoolean", "BooleanToSignedIntegral"):
                v = self.ev(n["c"][0])
                if ck == "IntegralToBoolean":
                    return 1 if v else 0
                return self.wrap(v, n.get("ct"))
            if ck == "NullToPointer":
                return 0
            if ck == "PointerToBoolean":
                return 1 if self.ev(n["c"][0]) else 0
            if ck in ("IntegralToFloating", "FloatingCast"):
                return float(self.ev(n["c"][0]))
            if ck == "FloatingToIntegral":
                v = self.ev(n["c"][0])
                if v != v or v in (float("inf"), float("-inf")):
                    raise Unknown("float->int of non-finite")
                return self.wrap(int(v), n.get("ct"))
            if ck == "FloatingToBoolean":
                return 1 if self.ev(n["c"][0]) != 0 else 0
            return self.ev(n["c"][0])
        if k in ("IntegerLiteral", "CharacterLiteral"):
            return int(n["v"])
        if k == "FloatingLiteral":
            return float(n["v"])
        if k == "CXXThisExpr":
            if "this" in self.env:
                return self.env["this"]
            raise Unknown("this")
        if k == "StringLiteral":
            return ("str", n.get("v"))
        if k == "CXXBoolLiteralExpr":
            return 1 if n["v"] else 0
        if k in ("CXXNullPtrLiteralExpr", "GNUNullExpr"):
            return 0
        if k == "DeclRefExpr":
            if "cv" in n:
                return int(n["cv"])
            key = n["name"]
            al_ = getattr(self, "alias", None)
            if al_ and key in al_ and al_[key] in self.env:
                return self.env[al_[key]]
            if key in self.env:
                return self.env[key]
            if n.get("dk") in ("Function", "CXXMethod"):
                return ("fn", n.get("qn") or key)      # a function designator (decays to a function pointer)
            if (self.tinfo(n.get("ct")) or {}).get("k") == "array":
                if n.get("global") and key + "[0]" not in self.env:
                    self.load_const_global(n.get("qn") or key, key)
                return ("ptr", key, 0)                  # an array variable: its cells are env[name[i]]
            if n.get("global") and self.load_const_global(n.get("qn") or key, key) and key in self.env:
                return self.env[key]
            raise Unknown(key)
        if k in ("MemberExpr", "ArraySubscriptExpr"):
            key = self.lkey(n)
            if key in self.env:
                return self.env[key]
            if k == "MemberExpr" and (self.tinfo(n.get("ct")) or {}).get("k") == "array":
                return ("ptr", key, 0)                  # a member array: its cells are env[name[i]]
            self.note_absent(key)
            self.check_drift(key)
            raise Unknown(key)
        if k == "UnaryOperator":
            op = n["op"]
            if op == "*":
                key = self.lkey(n)
                if key in self.env:
                    v = self.env[key]
                    return self.wrap(v, n.get("ct")) if isinstance(v, int) else v
                if getattr(self, "heap_mode", False) and (n.get("ct") or "").replace("const ", "").strip() in self.prog.records:
                    # an object of a class behind a modelled address: as a value (bound to a reference) it is that address
                    try:
                        pv_ = self.ev(n["c"][0])
                    except Unknown:
                        pv_ = None
                    if isinstance(pv_, int) and pv_ != 0:
                        return pv_
                self.note_absent(key)
                raise Unknown(key)
            if op in ("++", "--"):
                key = self.lkey(n["c"][0])
                if key not in self.env:
                    raise Unknown(key)
                old = self.as_ptr(self.env[key])
                if isinstance(old, tuple) and old[0] == "ptr":
                    new = (old[0], old[1], old[2] + (1 if op == "++" else -1))
                elif isinstance(old, tuple):
                    raise Unknown("%s of %s" % (op, old[0]))
                else:
                    new = self.wrap(old + (1 if op == "++" else -1), n.get("ct"))
                self.env[key] = new
                self.stores.append((key, new))
                return old if n.get("postfix") else new
            if op == "&":
                inner = f.strip(n["c"][0], casts=False)
                if inner is not None and inner["k"] == "ArraySubscriptExpr":
                    try:
                        bv = self.ev(f.node(inner["base"]))
                    except Unknown:
                        bv = None
                    if isinstance(bv, int) and not isinstance(bv, bool):
                        esz = {"char": 1, "unsigned char": 1, "signed char": 1, "const char": 1, "const unsigned char": 1}.get(inner.get("ct", ""), None)
                        if esz is not None:
                            return bv + esz * self.ev(f.node(inner["idx"]))
                    if isinstance(bv, tuple):
                        return (bv[0], bv[1], bv[2] + self.ev(f.node(inner["idx"])))
                if getattr(self, "heap_mode", False):
                    if inner is not None and inner["k"] in ("CallExpr", "CXXMemberCallExpr", "CXXOperatorCallExpr"):
                        return self.ev(n["c"][0])       # the object a call returns by reference: its identity is the call's value
                    if inner is not None and inner["k"] in ("DeclRefExpr", "MemberExpr") and (inner.get("ct") or "").replace("const ", "").strip() in self.prog.records:
                        # a reference (variable, parameter or member) bound to a modelled object: its address is that object's identity
                        try:
                            k__ = self.lkey(inner)
                        except Unknown:
                            k__ = None
                        v__ = self.env.get(k__) if k__ is not None else None
                        if (isinstance(v__, int) and not isinstance(v__, bool) and v__ != 0) or (isinstance(v__, tuple) and v__ and v__[0] == "ref"):
                            return v__
                    return self.lkey(n["c"][0])
                if inner is not None and inner["k"] in ("DeclRefExpr", "MemberExpr") and (self.tinfo(inner.get("ct")) or {}).get("k") in ("ptr", "int", "bool", "enum") \
                        and not (inner["k"] == "DeclRefExpr" and inner.get("dk") in ("Function", "CXXMethod")):
                    return ("ref", self.lkey(inner))      # address of a scalar/pointer variable or field
                if inner is not None and (inner["k"] in ("CallExpr", "CXXMemberCallExpr", "CXXOperatorCallExpr") or
                                          (inner["k"] == "DeclRefExpr" and (self.tinfo(inner.get("ct")) or {}).get("k") in ("record", "ref", "other"))):
                    # the address of an object designated by a reference (call result, reference parameter) or of a
                    # record variable: objects are modelled by their identity
                    return self.ev(n["c"][0])
            v = self.ev(n["c"][0])
            if op == "!":
                return 0 if v else 1
            if op == "-":
                return self.wrap(-v, n.get("ct"))
            if op == "~":
                return self.wrap(~v, n.get("ct"))
            if op == "+":
                return v
            raise Unknown(op)
        if k in ("BinaryOperator", "CompoundAssignOperator"):
            op = n["op"]
            l, r = f.node(n["lhs"]), f.node(n["rhs"])
            if op in ("&&", "||"):
                # clang folds both operands in short-circuit blocks of their own before the block that holds the whole
                # expression (return a && f(); x = a || g();): take them from there, never fold a call twice
                def operand(x0):
                    cache = self.__dict__.get("_cache") or {}
                    x = x0
                    while x is not None:
                        if x["id"] in cache and not isinstance(cache[x["id"]], Unknown):
                            return cache[x["id"]]
                        if x["k"] in TRANSPARENT and len(x.get("c", [])) == 1:
                            x = x["c"][0]
                            continue
                        break
                    return self.ev(x0)
                lv = operand(l)
                if op == "&&":
                    return (1 if operand(r) else 0) if lv else 0
                return 1 if lv else (1 if operand(r) else 0)
            if op == ",":
                self.ev(l)
                return self.ev(r)
            if op == "=":
                try:
                    v = self.ev(r)
                except Unknown:
                    # the target no longer holds its old value
                    try:
                        self.env.pop(self.lkey(l), None)
                    except Unknown:
                        pass
                    raise
                key = self.lkey(l)
                self.env[key] = v
                self.stores.append((key, v))
                return v
            if op.endswith("=") and op not in ("==", "!=", "<=", ">="):
                key = self.lkey(l)
                if key not in self.env:
                    raise Unknown(key)
                try:
                    v = self._bin(op[:-1], self.env[key], self.ev(r), n.get("ct"))
                except Unknown:
                    self.env.pop(key, None)
                    raise
                self.env[key] = v
                self.stores.append((key, v))
                return v
            return self._bin(op, self.ev(l), self.ev(r), n.get("ct"))
        if k in ("ConditionalOperator",):
            # clang evaluates the condition and the chosen arm in blocks of their own before the block that holds the
            # whole expression: take their values from there instead of folding them (and their calls) a second time
            def cached(x):
                cache = self.__dict__.get("_cache") or {}
                while x is not None:
                    if x["id"] in cache and not isinstance(cache[x["id"]], Unknown):
                        return True, cache[x["id"]]
                    if x["k"] in TRANSPARENT and len(x.get("c", [])) == 1:
                        x = x["c"][0]
                        continue
                    break
                return False, None
            hit, c = cached(f.node(n["cond"]))
            if not hit:
                c = self.ev(f.node(n["cond"]))
            arm = f.node(n["then"] if c else n["else"])
            hit, v = cached(arm)
            return v if hit else self.ev(arm)
        if k in ("CallExpr", "CXXMemberCallExpr", "CXXOperatorCallExpr"):
            nm = self.prog.callee_name(f, n)
            if k == "CXXOperatorCallExpr" and nm not in self.calls and (nm or "").split("::")[-1] in ("operator=", "operator+=") and len(f.args(n)) == 2:
                # assignment / append between string values (objects of the string model)
                lhs_, rhs_ = f.args(n)
                try:
                    rv_ = self.ev(rhs_)
                except Thrown:
                    raise
                except Unknown:
                    rv_ = None
                if isinstance(rv_, tuple) and rv_[0] == "str":
                    try:
                        key_ = self.lkey(lhs_)
                    except Unknown:
                        key_ = None
                    if key_ is not None:
                        if nm.endswith("operator+="):
                            old_ = self.env.get(key_)
                            rv_ = ("str", old_[1] + rv_[1]) if isinstance(old_, tuple) and old_[0] == "str" else None
                        if rv_ is not None:
                            self.env[key_] = rv_
                            self.stores.append((key_, rv_))
                            return rv_
                        self.env.pop(key_, None)
                elif rv_ is None:
                    try:
                        self.env.pop(self.lkey(lhs_), None)      # the object no longer holds its old value
                    except Unknown:
                        pass
            dyn_target = None
            dyn_ = getattr(self, "dyn_type", None)
            if dyn_ and k == "CXXMemberCallExpr" and n.get("callee") and n["callee"].get("dispatch") == "virtual" and n.get("obj") is not None:
                # a virtual call on an object whose dynamic class the model states (dyn_type: address -> class): the
                # override of that class is the callee (for hooks and for inlining alike)
                os_ = f.strip(f.node(n["obj"]))
                if os_ is not None and os_["k"] in ("DeclRefExpr", "MemberExpr", "CXXThisExpr"):
                    try:
                        rv_ = self.env.get("this") if os_["k"] == "CXXThisExpr" else self.ev(f.node(n["obj"]))
                    except Unknown:
                        rv_ = None
                    if isinstance(rv_, int) and rv_ in dyn_:
                        mname, c_ = n["callee"]["qn"].split("::")[-1], dyn_[rv_]
                        st_ = self.prog.functions.get(n["callee"].get("mn"))
                        sig_ = [q["ct"] for q in st_.params] if st_ is not None else None      # (the overload the call was resolved to)
                        for _ in range(8):
                            cand = [g_ for g_ in self.prog.methods_of(c_) if g_.name == mname and len(g_.params) == len(f.args(n)) and (sig_ is None or [q["ct"] for q in g_.params] == sig_)]
                            if cand or not self.prog.records.get(c_, {}).get("bases"):
                                break
                            c_ = self.prog.records[c_]["bases"][0]
                            c_ = c_.get("name") if isinstance(c_, dict) else c_
                        if cand:
                            dyn_target = cand[0]
                            nm = dyn_target.qn
            indirect_target = None
            if k == "CallExpr" and not n.get("callee") and nm not in self.calls:
                # a call through a function-pointer value: when the pointer folds to a function designator, the call is that function's
                argids = set(n.get("args", []))
                cal = [c_ for c_ in n.get("c", []) if c_["id"] not in argids]
                if cal:
                    try:
                        fv = self.ev(cal[0])
                    except Unknown:
                        fv = None
                    if isinstance(fv, tuple) and fv[0] == "fn":
                        nm = fv[1]
                        indirect_target = [g_ for g_ in self.prog.functions.values() if g_.qn == nm]
            if nm in self.calls:
                args = []
                ob_ = f.strip(f.node(n["obj"])) if (k == "CXXMemberCallExpr" and n.get("obj") is not None) else None
                self.last_obj_key = None
                if ob_ is not None and ob_["k"] != "CXXThisExpr":
                    try:
                        self.last_obj_key = self.lkey(f.node(n["obj"]))      # for hooks that mutate the receiver
                    except Unknown:
                        pass
                if ob_ is not None and ob_["k"] != "CXXThisExpr" and getattr(self, "pass_object", False):
                    try:
                        # pass_object == "key": the designator of the object (table_[3]) rather than its value
                        on__ = f.node(n["obj"])
                        if self.pass_object == "key" and (on__.get("ct") or "").rstrip().endswith("*"):
                            pv__ = self.as_ptr(self.ev(on__))      # p->m(): the designator of *p
                            args.append("%s[%d]" % (pv__[1], pv__[2]) if isinstance(pv__, tuple) and pv__[0] == "ptr" else ("@%d" % pv__ if isinstance(pv__, int) else pv__))
                        elif self.pass_object == "key" and f.strip(on__) is not None and f.strip(on__)["k"] in ("CallExpr", "CXXMemberCallExpr"):
                            # the object is what a call returns by reference: fold the call once, then name the lvalue it returned
                            try:
                                self.ev(on__)
                            except Unknown:
                                pass
                            args.append((getattr(self, "_ret_keys", None) or {}).get(f.strip(on__)["id"]))
                        else:
                            args.append(self.lkey(on__) if self.pass_object == "key" else self.ev(on__))
                    except Unknown:
                        args.append(None)
                keys = []
                for a in f.args(n):
                    a0 = f.strip(a, casts=True)
                    if a0 is not None and (a0["k"] in ("ArraySubscriptExpr", "MemberExpr") or (a0["k"] == "UnaryOperator" and a0.get("op") == "*")):
                        # an lvalue argument: evaluate its designator once (side effects in the subscript happen once)
                        try:
                            key = self.lkey(a0)
                        except Unknown:
                            key = None
                        keys.append(key)
                        v__ = self.env.get(key) if key is not None else None
                        if v__ is None and a0["k"] == "UnaryOperator" and getattr(self, "heap_mode", False) and (a0.get("ct") or "").replace("const ", "").strip() in self.prog.records:
                            try:
                                v__ = self.ev(a0)        # *p of class type: the object's modelled address
                            except Unknown:
                                v__ = None
                        args.append(v__)
                        continue
                    if a0 is not None and a0["k"] == "UnaryOperator" and a0.get("op") == "&" and not getattr(self, "heap_mode", False):
                        tgt = f.strip(a0["c"][0], casts=False)
                        if tgt is not None and tgt["k"] == "DeclRefExpr":
                            # the address of a local: the hook receives ("ref", key) and may store through self.env
                            keys.append(tgt["name"])
                            args.append(("ref", tgt["name"]))
                            continue
                    keys.append(None)
                    try:
                        args.append(self.ev(a))
                    except Unknown:
                        args.append(None)
                self.trace.append((nm, args, n))
                self.argkeys = getattr(self, "argkeys", [])
                self.argkeys.append((nm, keys))
                hook = self.calls[nm]
                if getattr(hook, "wants_ev", False):
                    # designators of the arguments that are lvalues: a stub may store through a by-reference parameter
                    self.last_arg_keys = []
                    for a in f.args(n):
                        try:
                            self.last_arg_keys.append(self.lkey(a))
                        except Unknown:
                            self.last_arg_keys.append(None)
                r = hook(self, *args) if getattr(hook, "wants_ev", False) else hook(*args)
                if r is DECLINE and not f.args(n):
                    # the stub answers only for some receivers (a string temporary, say) and leaves the others to the real
                    # function: the call is treated as if it had no stub (parameterless calls only: nothing is evaluated twice)
                    self.trace.pop()
                    self.argkeys.pop()
                else:
                    if r is None or r is DECLINE:
                        raise Unknown(nm)
                    return r
            inl = getattr(self, "inline", None) or set()
            auto = False
            if n.get("callee") and n["callee"].get("dispatch") == "direct" and n["callee"]["mn"] in self.prog.functions and getattr(self, "inline_static", True):
                g0 = self.prog.functions[n["callee"]["mn"]]
                auto = bool(g0.d.get("static")) and g0.kind == "function" and g0 is not f and getattr(self, "_depth", 0) < 4
                # a non-virtual member of the class being folded is part of the same implementation: helpers that a
                # refactoring splits off (or merges) do not change what is folded
                if not auto and g0.cls and g0.cls == f.cls and g0 is not f and getattr(self, "inline_own_class", True) and getattr(self, "_depth", 0) < 8:
                    auto = True
                # a class that is defined in the source file of the folded function is an implementation detail of that
                # file (an iterator, a guard, a small struct with helpers): its members are folded like file-static helpers
                if not auto and g0.cls and self.file_local_class(g0.cls) and getattr(self, "_depth", 0) < 8:
                    auto = True
            if indirect_target and len(indirect_target) == 1 and (nm in inl or (indirect_target[0].d.get("static") and indirect_target[0].kind == "function")):
                auto = True
            if dyn_target is not None:
                auto = auto or (dyn_target.cls == f.cls)
            if (nm in inl or auto) and (dyn_target is not None or (n.get("callee") and n["callee"]["mn"] in self.prog.functions) or indirect_target):
                g = dyn_target if dyn_target is not None else (self.prog.functions[n["callee"]["mn"]] if n.get("callee") else indirect_target[0])
                if getattr(self, "_depth", 0) > 30:
                    raise Unknown("inlining depth exceeded in %s (unbounded recursion)" % nm)
                args = []
                for a in f.args(n):
                    try:
                        args.append(self.ev(a))
                    except Thrown:
                        raise
                    except Unknown:
                        args.append(None)       # an argument the model has no value for: the parameter stays unbound
                pnames = {q["name"] for q in g.params}
                glocals = set(pnames)
                for gn in g.walk():
                    if gn["k"] == "DeclStmt":
                        glocals |= {d["name"] for d in gn.get("decls", [])}
                senv = {k: v for k, v in self.env.items() if k not in pnames}
                # a member function called on another object than the caller's `this`: the callee's unqualified
                # fields are that object's fields
                prefix, fields = None, set()
                if k == "CXXMemberCallExpr" and n.get("obj") is not None and g.cls:
                    on_ = f.node(n["obj"])
                    os_ = f.strip(on_)
                    if os_ is not None and os_["k"] != "CXXThisExpr":
                        rec = self.prog.records.get(g.cls, {})
                        fields = {fl["name"] for fl in rec.get("fields", [])}
                        if (on_.get("ct") or "").rstrip().endswith("*"):
                            pv = self.ev(on_)
                            if isinstance(pv, int) and getattr(self, "heap_mode", False):
                                if pv == 0:
                                    self.note_null(render(f, n))
                                    raise Unknown("null dereference: %s" % render(f, n))
                                prefix = "@%d." % pv
                            elif isinstance(pv, tuple):
                                prefix = "%s[%d]." % (pv[1], pv[2])
                            else:
                                raise Unknown("object of %s" % render(f, n))
                        else:
                            prefix = self.lkey(on_) + "."
                        root = lambda key: key.split(".")[0].split("[")[0]
                        senv = {k_: v for k_, v in senv.items() if root(k_) not in fields and k_ != "this"}
                        if (on_.get("ct") or "").rstrip().endswith("*"):
                            senv["this"] = pv
                        for k_, v in self.env.items():
                            if k_.startswith(prefix) and root(k_[len(prefix):]) in fields:
                                senv[k_[len(prefix):]] = v
                senv.update({q["name"]: self.wrap(v, q["ct"]) if isinstance(v, int) else v for q, v in zip(g.params, args) if v is not None})
                sub = Evaluator(self.prog, g, env=senv, calls=self.calls)
                sub.alias = {}
                for q, a, v in zip(g.params, f.args(n), args):
                    if v is None and q["ct"].rstrip().endswith("&"):
                        try:
                            sub.alias[q["name"]] = self.lkey(a)        # reference to an object of the caller
                        except Unknown:
                            pass
                sub.inline = inl
                sub._parent = self
                sub._depth = getattr(self, "_depth", 0) + 1
                sub.pass_object = getattr(self, "pass_object", False)
                sub.heap_mode = getattr(self, "heap_mode", False)
                sub.objects = getattr(self, "objects", False)
                sub.dyn_type = getattr(self, "dyn_type", None)
                for q, v in zip(g.params, args):
                    # a string value bound to a (const) SimpleString parameter: the parameter object's buffer is that text
                    # (for callees that read the object through buffer_/bufferSize_ rather than through string hooks)
                    if isinstance(v, tuple) and v and v[0] in ("str", "ptr") and q["ct"].replace("const ", "").replace("&", "").strip() == "SimpleString":
                        try:
                            pv_ = sub.as_ptr(v)
                            sub.env[q["name"] + ".bufferSize_"] = len(sub.cstring(pv_)) + 1
                            sub.env[q["name"] + ".buffer_"] = pv_
                        except Unknown:
                            pass
                sub.on_subscript = getattr(self, "on_subscript", None)
                sub.trace.append(("enter " + str(nm), None, n))
                sub.run_blocks(g.entry, max_steps=5000)
                sub.trace.append(("leave " + str(nm), None, n))
                if getattr(sub, "threw", None) is not None:
                    self.threw = sub.threw
                    self.trace.extend(sub.trace)
                    raise Thrown(nm, exc=getattr(sub, "threw_type", None))
                # by-reference parameters: what the callee left in them is the caller's object afterwards
                for q, a in zip(g.params, f.args(n)):
                    if q["ct"].rstrip().endswith("&") and not q["ct"].startswith("const ") and q["name"] in sub.env:
                        try:
                            ak = self.lkey(a)
                        except Unknown:
                            continue
                        if sub.env[q["name"]] != senv.get(q["name"]):
                            self.env[ak] = sub.env[q["name"]]
                            self.stores.append((ak, sub.env[q["name"]]))
                for sk, sv in sub.stores:
                    rk = sk.split(".")[0].split("[")[0]
                    if prefix is not None and rk in fields:
                        self.env[prefix + sk] = sv
                        self.stores.append((prefix + sk, sv))
                    elif sk.startswith("@") or "." in sk or "[" in sk or (sk in self.env and rk not in glocals):
                        self.env[sk] = sv
                        self.stores.append((sk, sv))
                if getattr(sub, "wraps", None):
                    if not hasattr(self, "wraps"):
                        self.wraps = []
                    self.wraps.extend(sub.wraps)
                self.trace.extend(sub.trace)
                r = getattr(sub, "ret", None)
                if isinstance(r, tuple) and r and r[0] == "lvalue":
                    # the callee returned a reference to an lvalue: its designator in THIS frame (members of another object get
                    # that object's prefix), and its value when it has one
                    rk_ = r[1]
                    rootk_ = rk_.split(".")[0].split("[")[0]
                    if prefix is not None and rootk_ in fields:
                        rk_ = prefix + rk_
                    if not hasattr(self, "_ret_keys"):
                        self._ret_keys = {}
                    self._ret_keys[n["id"]] = rk_
                    if rk_ in self.env:
                        return self.env[rk_]
                    raise Unknown("inlined %s returns the object %s" % (nm, rk_))
                if r is None or (isinstance(r, tuple) and r[0] not in ("ptr", "str", "fn")):
                    raise Unknown("inlined %s: %s" % (nm, r))
                return r
            # an unmodelled callee: its arguments are still evaluated (nested calls are answered, side effects happen)
            for a in f.args(n):
                try:
                    self.ev(a)
                except Thrown:
                    raise
                except Unknown:
                    pass
            self.trace.append((nm, None, n))
            raise Unknown("call " + str(nm))
        if k == "CXXDeleteExpr":
            # delete p: recorded on the fold's root (`deleted`: addresses in order) and in the trace; the destructor of a modelled
            # class runs on the object's cells first
            pv_ = self.ev(n["c"][0]) if n.get("c") else None
            root = self
            while getattr(root, "_parent", None) is not None:
                root = root._parent
            if not hasattr(root, "deleted"):
                root.deleted = []
            root.deleted.append(pv_)
            self.trace.append(("delete", [pv_], n))
            if isinstance(pv_, int) and pv_ != 0 and not n.get("array"):
                pt_ = (n["c"][0].get("ct") or "").replace("const ", "").rstrip("* ").strip()
                cls_ = (getattr(self, "dyn_type", None) or {}).get(pv_, pt_)
                if cls_ in self.prog.records and (getattr(self, "objects", False) or self.file_local_class(cls_)):
                    self._destroy("@%d." % pv_, cls_, None, n)
            return 0
        if k == "CXXNewExpr":
            # a fresh object: its address is a new integer; constructor arguments are evaluated and recorded
            # fresh addresses are unique across the evaluators of one fold (inlined callees allocate too)
            root = self
            while getattr(root, "_parent", None) is not None:
                root = root._parent
            root._newctr = getattr(root, "_newctr", 880000) + 16
            self._newid = root._newctr
            argv = []
            for ch in n.get("c", []):
                inner = f.strip(ch)
                try:
                    if inner is not None and inner["k"] in ("CXXConstructExpr", "CXXTemporaryObjectExpr") and not n.get("array") \
                            and (getattr(self, "objects", False) or self.file_local_class((self.prog.functions.get((inner.get("ctor") or {}).get("mn")) or type("o", (), {"cls": ""})).cls or "")) \
                            and self._construct("@%d." % self._newid, inner, n):
                        # the object is modelled: its constructor has run on the cells @<address>.<member>
                        argv = list(self.trace[-1][1]) if self.trace and str(self.trace[-1][0]).startswith("construct ") else argv
                        dt_ = getattr(self, "dyn_type", None)
                        g_ = self.prog.functions.get((inner.get("ctor") or {}).get("mn"))
                        if dt_ is not None and g_ is not None and g_.cls:
                            dt_[self._newid] = g_.cls
                    elif inner is not None and inner["k"] in ("CXXConstructExpr", "CXXTemporaryObjectExpr"):
                        for a in f.args(inner):
                            try:
                                argv.append(self.ev(a))
                            except Thrown:
                                raise
                            except Unknown:
                                argv.append(None)
                    else:
                        self.ev(ch)
                except Thrown:
                    raise
                except Unknown:
                    pass
            if n.get("array"):
                # new T[n]: a fresh array; its cells are env["NEW<k>[i]"]
                base = "NEW%d" % self._newid
                self.trace.append(("new[] " + (n.get("alloct") or "?"), [base] + argv, n))
                return ("ptr", base, 0)
            self.trace.append(("new " + (n.get("ct") or "?"), [self._newid] + argv, n))
            return self._newid
        if k in ("CXXConstructExpr", "CXXTemporaryObjectExpr", "CXXFunctionalCastExpr"):
            # objects are not modelled, but the arguments are evaluated (calls in them are answered and traced);
            # a string object built from one string value is that string value
            vals_ = []
            for a in f.args(n) if k != "CXXFunctionalCastExpr" else n.get("c", []):
                try:
                    vals_.append(self.ev(a))
                except Thrown:
                    raise
                except Unknown:
                    vals_.append(None)
            self.trace.append(("construct " + (n.get("ct") or "?").replace("const ", ""), vals_, n))
            if len(vals_) == 1 and isinstance(vals_[0], tuple) and vals_[0][0] == "str":
                return vals_[0]
            if not vals_ and k == "CXXConstructExpr" and (n.get("ct") or "").replace("const ", "").strip() == "SimpleString":
                return ("str", "")                                           # SimpleString(): the empty string
            if len(vals_) == 2 and isinstance(vals_[1], int) and 0 <= vals_[1] < 100000 and (n.get("ct") or "").replace("const ", "").strip() == "SimpleString":
                try:
                    return ("str", self.cstring(vals_[0]) * vals_[1])       # SimpleString(text, repeat count)
                except Unknown:
                    pass
            if len(vals_) == 1 and isinstance(vals_[0], tuple) and vals_[0][0] == "ptr" and (n.get("ct") or "").replace("const ", "").strip() == "SimpleString":
                return ("str", self.cstring(vals_[0]))      # SimpleString(const char*) copies the text up to the terminator
            raise Unknown(k)
        raise Unknown(k)

    def _bin(self, op, a, b, ct):
        if op in ("+", "-"):
            a, b = self.as_ptr(a), self.as_ptr(b)
        if isinstance(a, tuple) or isinstance(b, tuple):
            # symbolic element pointers ("ptr", base key, index); string literals ("str", text) only compare with NULL
            if (isinstance(a, tuple) and a[0] != "ptr") or (isinstance(b, tuple) and b[0] != "ptr"):
                if op in ("==", "!=") and (a == 0 or b == 0):
                    return 1 if (op == "!=") else 0
                if op in ("==", "!=") and isinstance(a, tuple) and isinstance(b, tuple):
                    # pointer comparison of two string/function values: equal only when it is the very same value object
                    # (two arrays holding the same text are different pointers)
                    same = (a is b) or (a[0] == b[0] == "fn" and a == b)
                    return (1 if same else 0) if op == "==" else (0 if same else 1)
                raise Unknown("arithmetic on %s" % (a if isinstance(a, tuple) else b)[0])
            if isinstance(a, tuple) and isinstance(b, int) and op in ("+", "-"):
                return (a[0], a[1], a[2] + (b if op == "+" else -b))
            if isinstance(b, tuple) and isinstance(a, int) and op == "+":
                return (b[0], b[1], b[2] + a)
            if isinstance(a, tuple) and isinstance(b, tuple) and a[1] == b[1]:
                if op == "-": return a[2] - b[2]
                if op in ("==", "!=", "<", ">", "<=", ">="):
                    return self._bin(op, a[2], b[2], "int")
            if op in ("==", "!=") and (a == 0 or b == 0):
                return 1 if (op == "!=") else 0
            if op in ("==", "!=") and isinstance(a, tuple) and isinstance(b, tuple) and a[1] != b[1]:
                return 1 if (op == "!=") else 0            # pointers into two different modelled objects
            raise Unknown("pointer arithmetic %s" % op)
        if isinstance(a, float) or isinstance(b, float):
            a, b = float(a), float(b)
            if op == "+": return a + b
            if op == "-": return a - b
            if op == "*": return a * b
            if op == "/":
                if b == 0.0:
                    if a != a or a == 0.0: return float("nan")
                    import math
                    return math.copysign(float("inf"), a) * math.copysign(1.0, b)
                return a / b
            if op == "==": return 1 if a == b else 0
            if op == "!=": return 1 if a != b else 0
            if op == "<": return 1 if a < b else 0
            if op == ">": return 1 if a > b else 0
            if op == "<=": return 1 if a <= b else 0
            if op == ">=": return 1 if a >= b else 0
            raise Unknown(op)
        if op == "+": v = a + b
        elif op == "-": v = a - b
        elif op == "*": v = a * b
        elif op == "/":
            if b == 0: raise Unknown("div0")
            v = abs(a) // abs(b) * (1 if (a >= 0) == (b >= 0) else -1)
        elif op == "%":
            if b == 0: raise Unknown("div0")
            v = abs(a) % abs(b) * (1 if a >= 0 else -1)
        elif op in ("<<", ">>"):
            # a shift count that is negative or not below the width of the (promoted) left operand is undefined
            t_ = self.tinfo(ct) if isinstance(b, int) else None
            if isinstance(b, int) and (b < 0 or (t_ is not None and t_.get("k") in ("int", "enum") and "bits" in t_ and b >= t_["bits"])):
                root = self
                while getattr(root, "_parent", None) is not None:
                    root = root._parent
                if not hasattr(root, "undefined_ops"):
                    root.undefined_ops = []
                root.undefined_ops.append("shift of a %s by %d" % (ct, b))
                raise Unknown("undefined: shift of a %s by %d" % (ct, b))
            v = a << b if op == "<<" else a >> b
        elif op == "&": v = a & b
        elif op == "|": v = a | b
        elif op == "^": v = a ^ b
        elif op == "==": return 1 if a == b else 0
        elif op == "!=": return 1 if a != b else 0
        elif op == "<": return 1 if a < b else 0
        elif op == ">": return 1 if a > b else 0
        elif op == "<=": return 1 if a <= b else 0
        elif op == ">=": return 1 if a >= b else 0
        else:
            raise Unknown(op)
        w = self.wrap(v, ct)
        if w != v and op in ("+", "-", "*", "<<"):
            if not hasattr(self, "wraps"):
                self.wraps = []
            self.wraps.append((op, a, b, ct))
        return w

    # ---- CFG walking -----------------------------------------------------
    def _dispatch(self, n, exc):
        """first block of the handler that catches an exception of type `exc` raised while evaluating node n (None: leaves f)"""
        from .paths import enclosing_try, handler_blocks
        f = self.f
        norm = lambda t: (t or "").replace("const ", "").replace("&", "").replace(" ", "")
        bases = getattr(self, "exc_bases", {})
        cur = n
        while True:
            t = enclosing_try(f, cur)
            if t is None:
                return None
            for hb in handler_blocks(f, t):
                lab = f.blocks[hb].get("label")
                caught = f.nodes[lab].get("caught") if lab is not None and lab in f.nodes else "..."
                if caught == "..." or exc is None or norm(caught) == norm(exc) or norm(caught) in [norm(x) for x in bases.get(norm(exc), [])]:
                    self._current_exc = exc
                    return hb
            cur = t

    # ---- objects with constructors / destructors (enabled by `objects = True`) -------------------------------
    def _run_special(self, g, prefix, args, n, label):
        """run constructor / destructor g on the object whose fields live under `prefix` in this environment"""
        fields, c_ = set(), g.cls
        for _ in range(8):      # the object's members: its class's and its bases'
            rec = self.prog.records.get(c_, {})
            fields |= {fl["name"] for fl in rec.get("fields", [])}
            bs = rec.get("bases") or []
            if not bs:
                break
            c_ = bs[0]
        root = lambda key: key.split(".")[0].split("[")[0]
        pnames = {q["name"] for q in g.params}
        senv = {k_: v for k_, v in self.env.items() if k_ not in pnames and root(k_) not in fields and k_ != "this"}
        for k_, v in self.env.items():
            if k_.startswith(prefix) and root(k_[len(prefix):]) in fields:
                senv[k_[len(prefix):]] = v
        senv.update({q["name"]: v for q, v in zip(g.params, args) if v is not None})
        m_ = re.match(r"^@(-?\d+)\.$", prefix)
        if m_:
            senv["this"] = int(m_.group(1))     # (an object of the heap model: `this` is its address)
        elif prefix == "" and "this" in self.env:
            senv["this"] = self.env["this"]     # (a base-class constructor on the same object)
        if getattr(self, "_depth", 0) > 30:
            raise Unknown("inlining depth exceeded in %s (unbounded recursion)" % label)
        sub = Evaluator(self.prog, g, env=senv, calls=self.calls)
        sub.alias = {}
        sub.inline = getattr(self, "inline", None)
        sub._parent = self
        sub._depth = getattr(self, "_depth", 0) + 1
        sub.pass_object = getattr(self, "pass_object", False)
        sub.heap_mode = getattr(self, "heap_mode", False)
        sub.objects = True
        sub.on_subscript = getattr(self, "on_subscript", None)
        sub.trace.append(("enter " + label, None, n))
        sub.run_blocks(g.entry, max_steps=5000)
        sub.trace.append(("leave " + label, None, n))
        for sk, sv in sub.stores:
            rk = root(sk)
            if rk in fields:
                self.env[prefix + sk] = sv
                self.stores.append((prefix + sk, sv))
            elif sk.startswith("@") or "." in sk or "[" in sk or sk in self.env:
                self.env[sk] = sv
                self.stores.append((sk, sv))
        self.trace.extend(sub.trace)
        if getattr(sub, "threw", None) is not None:
            self.threw = sub.threw
            raise Thrown(label, exc=getattr(sub, "threw_type", None))
        return getattr(sub, "ret", None)

    def file_local_class(self, cls):
        """the class is defined in a source file (not a header) and the outermost folded function lives in that file"""
        r = self._root()
        rec = self.prog.records.get(cls) or self.prog.records.get(cls.split("::")[0])
        fl = (rec or {}).get("file") or ""
        return bool(rec) and fl.endswith((".cpp", ".c")) and fl == r.f.file

    def _construct(self, prefix, ce, n):
        """a CXXConstructExpr for the object under `prefix`: the constructor is run when it is inlinable.
        Returns True when the object was constructed by running its constructor."""
        f = self.f
        c = ce.get("ctor") or {}
        g = self.prog.functions.get(c.get("mn"))
        inl = getattr(self, "inline", None) or set()
        if g is None or g.qn in self.calls or not (g.qn in inl or self.file_local_class(g.cls or "")):
            return False
        args = []
        for a in f.args(ce):
            try:
                args.append(self.ev(a))
            except Thrown:
                raise
            except Unknown:
                args.append(None)
        self.trace.append(("construct " + (ce.get("ct") or "?").replace("const ", ""), args, ce))
        self._run_special(g, prefix, args, n, g.qn)
        return True

    def _destroy(self, prefix, cls, mn, n):
        """destructor of the object under `prefix`: the user-written body when there is one (its CFG ends with the
        member destructors), else the implicit one: the members' destructors in reverse order"""
        g = self.prog.functions.get(mn) if mn else None
        if g is None:
            ds = [m for m in self.prog.methods_of(cls) if m.kind == "dtor"] if cls in self.prog.records else []
            g = ds[0] if ds else None
        inl = getattr(self, "inline", None) or set()
        if g is not None:
            if g.qn in self.calls:
                hook = self.calls[g.qn]
                self.trace.append((g.qn, [prefix], n))
                hook(prefix)
                return
            if g.qn in inl or self.file_local_class(g.cls or ""):
                self._run_special(g, prefix, [], n, g.qn)
            return
        for fl in reversed(self.prog.records.get(cls, {}).get("fields", [])):
            ft = (fl.get("ct") or "").replace("const ", "").strip()
            if ft in self.prog.records:
                self._destroy(prefix + fl["name"] + ".", ft, None, n)

    def run_blocks(self, start, stop_blocks=(), max_steps=2000, on_call=None):
        """Walk the CFG from block `start`, folding every element (see _run_blocks). With `objects` enabled, an exception
        that leaves the function destroys the local objects that were constructed and are still alive (stack unwinding)."""
        self.check_model()
        r = self._run_blocks(start, stop_blocks, max_steps, on_call)
        if r[0] in ("throw", "return") and getattr(self, "_live", None):
            # (clang lists the destructors of a returning scope behind the return statement of the same block)
            thrown = (getattr(self, "threw", None), getattr(self, "threw_type", None))
            live, self._live = self._live, []
            for name, cls, mn in reversed(live):
                self._destroy(name + ".", cls, mn, None)
            self.threw, self.threw_type = thrown
        return r

    def _run_blocks(self, start, stop_blocks=(), max_steps=2000, on_call=None):
        """Walk the CFG from block `start`, folding every element; stops when a block in stop_blocks
        (or the exit) is reached. Unknown call results are tolerated when the value is unused
        (expression statements); a branch on an Unknown value raises."""
        f = self.f
        b = start
        steps = 0
        visited = []
        root_ = self
        while getattr(root_, "_parent", None) is not None:
            root_ = root_._parent
        while True:
            steps += 1
            if steps > max_steps:
                raise Unknown("step limit")
            # one budget for the whole fold (all inlined callees): a model on which the code does not terminate, or a
            # recursion that fans out, ends as Unknown instead of hanging the check
            root_._budget = getattr(root_, "_budget", 0) + 1
            if root_._budget > 400000:
                raise Unknown("step budget of the fold exhausted (unbounded recursion or loop)")
            if b in stop_blocks or b == f.exit:
                return b, visited
            visited.append(b)
            blk = f.blocks[b]
            # evaluate only top-level elements: elements that are not sub-expressions of a later element
            top = self.top_elements(blk)
            # (objects of a class local to the folded source file are always modelled: see file_local_class)
            if (getattr(self, "objects", False) or getattr(self, "_live", None) or (f.cls and f.kind in ("ctor", "dtor") and self.file_local_class(f.cls))) and any(isinstance(e, dict) for e in blk["el"]):
                tops_ = set(top)
                top = [e for e in blk["el"] if isinstance(e, dict) or e in tops_]
            vals = {}
            caught_at = None
            for e in top:
                if isinstance(e, dict):
                    # constructor initialisers and implicit destructor calls (only with `objects`)
                    try:
                        if e.get("e") == "init" and e.get("field") and e.get("expr") is not None:
                            x_ = f.nodes[e["expr"]]
                            xs_ = f.strip(x_)
                            if xs_ is not None and xs_["k"] == "CXXConstructExpr" and (xs_.get("ct") or "").replace("const ", "").strip() in self.prog.records:
                                if not self._construct(e["field"] + ".", xs_, x_):
                                    try:
                                        v_ = self.ev(x_)
                                        if isinstance(v_, tuple) and v_ and v_[0] == "str":
                                            self.env[e["field"]] = v_       # a string member initialised from a string value
                                            self.stores.append((e["field"], v_))
                                    except Thrown:
                                        raise
                                    except Unknown:
                                        self.env.pop(e["field"], None)
                            else:
                                try:
                                    v_ = self.ev(x_)
                                    self.env[e["field"]] = v_
                                    self.stores.append((e["field"], v_))
                                except Thrown:
                                    raise
                                except Unknown:
                                    self.env.pop(e["field"], None)
                        elif e.get("e") == "init" and e.get("base") and e.get("expr") is not None:
                            # a base-class initialiser: the base constructor runs on the same object
                            xs_ = f.strip(f.nodes[e["expr"]])
                            if xs_ is not None and xs_["k"] == "CXXConstructExpr":
                                self._construct("", xs_, f.nodes[e["expr"]])
                        elif e.get("e") == "autodtor" and e.get("var"):
                            live_ = getattr(self, "_live", [])
                            hit_ = [x for x in live_ if x[0] == e["var"]]
                            if hit_:
                                self._live = [x for x in live_ if x[0] != e["var"]]
                                self._destroy(e["var"] + ".", hit_[-1][1], e.get("mn"), None)
                        elif e.get("e") == "memberdtor" and e.get("field"):
                            cls_ = (e.get("qn") or "").rsplit("::", 1)[0]
                            self._destroy(e["field"] + ".", cls_, e.get("mn"), None)
                    except Thrown as t_:
                        self.threw_type = t_.exc
                        self.threw = getattr(self, "threw", None) or True
                        return "throw", visited
                    continue
                n = f.nodes[e]
                if n["k"] == "DeclStmt":
                    for d in n.get("decls", []):
                        if d.get("init") is not None and d.get("static"):
                            # a function-local static is initialised by the first call that reaches it and keeps its value: the
                            # values live in `statics` of the fold's root, which a rule may carry from one fold to the next
                            root_ = self
                            while getattr(root_, "_parent", None) is not None:
                                root_ = root_._parent
                            if not hasattr(root_, "statics") or root_.statics is None:
                                root_.statics = {}
                            sk_ = (f.mn, d["name"])
                            if sk_ in root_.statics:
                                self.env[d["name"]] = root_.statics[sk_]
                                continue
                            try:
                                root_.statics[sk_] = self.ev(d["init"])
                                self.env[d["name"]] = root_.statics[sk_]
                                continue
                            except Thrown:
                                raise
                            except Unknown:
                                pass            # (an aggregate or an object: handled like any other local below)
                        if d.get("init") is not None:
                            i0_ = f.strip(d["init"])
                            if i0_ is not None and i0_["k"] == "CXXConstructExpr" and (d.get("ct") or "").replace("const ", "").strip() in self.prog.records and \
                                    (getattr(self, "objects", False) or self.file_local_class((d.get("ct") or "").replace("const ", "").strip())):
                                try:
                                    if self._construct(d["name"] + ".", i0_, n):
                                        if not hasattr(self, "_live"):
                                            self._live = []
                                        self._live.append((d["name"], (d.get("ct") or "").replace("const ", "").strip(), None))
                                        continue
                                except Thrown as t_:
                                    caught_at = self._dispatch(n, t_.exc)
                                    if caught_at is None:
                                        self.threw_type = t_.exc
                                        self.threw = getattr(self, "threw", None) or n
                                        return "throw", visited
                                    break
                            if i0_ is not None and i0_["k"] == "InitListExpr":
                                def fill(prefix, lst, ext_):
                                    els_ = lst.get("c", [])
                                    for j_ in range(ext_ if isinstance(ext_, int) and ext_ < 4096 else len(els_)):
                                        el_ = f.strip(els_[j_]) if j_ < len(els_) else None
                                        key_ = "%s[%d]" % (prefix, j_)
                                        if el_ is not None and el_["k"] == "InitListExpr":
                                            fill(key_, el_, None)       # nested aggregate (rows of a table)
                                            continue
                                        try:
                                            self.env[key_] = self.ev(els_[j_]) if j_ < len(els_) else 0
                                        except Unknown:
                                            self.env.pop(key_, None)
                                fill(d["name"], i0_, (self.tinfo(d.get("ct")) or {}).get("extent"))
                                continue
                            if (d.get("ct") or "").rstrip().endswith("&") and i0_ is not None and i0_["k"] in ("CallExpr", "CXXMemberCallExpr"):
                                # a reference bound to what a call returns: an alias of the lvalue the (folded) callee returned, else the value
                                thrown__ = False
                                try:
                                    v__ = self.ev(d["init"])
                                except Thrown:
                                    thrown__ = True          # (handled by the general path below, which folds the throwing call again)
                                except Unknown:
                                    v__ = None
                                if not thrown__:
                                    rk__ = (getattr(self, "_ret_keys", None) or {}).get(i0_["id"])
                                    if rk__ is not None:
                                        if not hasattr(self, "alias") or self.alias is None:
                                            self.alias = {}
                                        self.alias[d["name"]] = rk__
                                    elif v__ is not None:
                                        self.env[d["name"]] = v__
                                    else:
                                        self.env.pop(d["name"], None)
                                    continue
                            if (d.get("ct") or "").rstrip().endswith("&") and i0_ is not None and (i0_["k"] in ("DeclRefExpr", "MemberExpr", "ArraySubscriptExpr") or (i0_["k"] == "UnaryOperator" and i0_.get("op") == "*")):
                                # a local reference to an object or variable: an alias of that lvalue
                                try:
                                    tgt_ = self.lkey(d["init"])
                                    if not hasattr(self, "alias") or self.alias is None:
                                        self.alias = {}
                                    self.alias[d["name"]] = tgt_
                                    continue
                                except Unknown:
                                    pass
                            try:
                                self.env[d["name"]] = self.ev(d["init"])
                            except Thrown as t_:
                                caught_at = self._dispatch(n, t_.exc)
                                if caught_at is None:
                                    self.threw_type = t_.exc
                                    self.threw = getattr(self, "threw", None) or n
                                    return "throw", visited
                                break
                            except Unknown:
                                self.env.pop(d["name"], None)
                    if caught_at is not None:
                        break
                    continue
                if n["k"] == "CXXThrowExpr":
                    ty_ = n["c"][0].get("ct") if n.get("c") else getattr(self, "_current_exc", None)
                    for ch_ in n.get("c", []):
                        try:
                            self.ev(ch_)
                        except Unknown:
                            pass
                    caught_at = self._dispatch(n, ty_)
                    if caught_at is None:
                        self.threw = n
                        self.threw_type = ty_
                        return "throw", visited
                    break
                if n["k"] == "ReturnStmt":
                    if n.get("value") is not None:
                        # a function that returns a reference to an lvalue (table_[i], *p, a member): remember which
                        if (f.ret or "").rstrip().endswith("&"):
                            rv_ = f.strip(f.node(n["value"]))
                            if rv_ is not None and (rv_["k"] in ("DeclRefExpr", "MemberExpr", "ArraySubscriptExpr") or (rv_["k"] == "UnaryOperator" and rv_.get("op") == "*")):
                                try:
                                    self.ret_key = self.lkey(rv_)
                                    self.ret = ("lvalue", self.ret_key)
                                    return "return", visited
                                except Unknown:
                                    pass
                        try:
                            self.ret = self.ev(f.node(n["value"]))
                        except Thrown as t_:
                            caught_at = self._dispatch(n, t_.exc)
                            if caught_at is None:
                                self.threw_type = t_.exc
                                self.threw = getattr(self, "threw", None) or n
                                return "throw", visited
                            break
                        except Unknown as u:
                            self.ret = ("unknown", str(u))
                    else:
                        self.ret = None
                    return "return", visited
                try:
                    vals[e] = self.ev(n)
                except Thrown as t_:
                    caught_at = self._dispatch(n, t_.exc)
                    if caught_at is None:
                        self.threw_type = t_.exc
                        self.threw = getattr(self, "threw", None) or n
                        return "throw", visited
                    break
                except Unknown as u:
                    vals[e] = u
            self.__dict__.setdefault("_cache", {}).update(vals)
            if caught_at is not None:
                self.threw = None
                b = caught_at
                continue
            succ = [s for s in blk["succ"]]
            if blk.get("tempdtorbranch") and len(succ) == 2:
                # both successors differ only in a temporary's destructor, which is not modelled
                b = succ[1] if succ[1] is not None else succ[0]
                continue
            if blk.get("termk") == "SwitchStmt" and blk.get("cond") is not None:
                sv = vals.get(blk["cond"])
                if sv is None or isinstance(sv, Unknown):
                    try:
                        sv = self.ev(f.nodes[blk["cond"]])
                    except Unknown as u:
                        raise Unknown("switch on unknown %s: %s" % (render(f, f.nodes[blk["cond"]]), u))
                target, default, nocase = None, None, None
                for s_ in succ:
                    if s_ is None:
                        continue
                    lab = f.blocks[s_]
                    if lab.get("labelk") == "CaseStmt":
                        ln_ = f.nodes[lab["label"]]
                        cv_ = ln_.get("cv")
                        if cv_ is None and ln_.get("lhs") is not None:
                            try:
                                cv_ = self.ev(f.node(ln_["lhs"]))
                            except Unknown:
                                cv_ = None
                        if cv_ is not None and int(cv_) == sv:
                            target = s_
                    elif lab.get("labelk") == "DefaultStmt":
                        default = s_
                    else:
                        nocase = s_
                b = target if target is not None else (default if default is not None else nocase)
                if b is None:
                    raise Unknown("switch without a matching successor")
                continue
            if blk.get("cond") is not None and len(succ) == 2:
                c = blk["cond"]
                cache = self.__dict__.setdefault("_cache", {})
                cache.update(vals)

                def cond_value(n_):
                    """value of a (sub)condition: operands that were folded as elements of this or an earlier block
                    (short-circuit blocks) are taken from there, never folded twice"""
                    x = n_
                    while True:
                        if x["id"] in cache:
                            r_ = cache[x["id"]]
                            if isinstance(r_, Unknown):
                                raise r_
                            return r_
                        if (x["k"] in TRANSPARENT or (x["k"] == "ImplicitCastExpr" and x.get("ck") in ("IntegralToBoolean", "PointerToBoolean", "NoOp", "LValueToRValue", "UserDefinedConversion"))) and len(x.get("c", [])) == 1:
                            if x["k"] == "ImplicitCastExpr" and x.get("ck") in ("IntegralToBoolean", "PointerToBoolean"):
                                return 1 if cond_value(x["c"][0]) else 0
                            x = x["c"][0]
                            continue
                        break
                    if x["k"] == "BinaryOperator" and x.get("op") in ("&&", "||"):
                        l_ = cond_value(f.node(x["lhs"]))
                        if x["op"] == "&&":
                            return (1 if cond_value(f.node(x["rhs"])) else 0) if l_ else 0
                        return 1 if l_ else (1 if cond_value(f.node(x["rhs"])) else 0)
                    if x["k"] == "UnaryOperator" and x.get("op") == "!":
                        return 0 if cond_value(x["c"][0]) else 1
                    r_ = self.ev(x)
                    cache[x["id"]] = r_
                    return r_
                try:
                    v = cond_value(f.nodes[c])
                except Unknown as u:
                    v = u
                if isinstance(v, Unknown):
                    raise Unknown("branch on unknown %s: %s" % (render(f, f.nodes[c]), v))
                b = succ[0] if v else succ[1]
                if b is None:
                    raise Unknown("dead edge")
                continue
            nxt = [s for s in succ if s is not None]
            if len(nxt) != 1:
                if not nxt:
                    return b, visited
                raise Unknown("multiway")
            b = nxt[0]

    def top_elements(self, blk):
        """elements of the block that are not strict sub-expressions of another element of the same
        block (CFG lists every sub-expression; folding the top ones evaluates each effect once)"""
        f = self.f
        els = [e for e in blk["el"] if isinstance(e, int)]
        # labels (catch / case / default) head a block as an element of their own: they are not evaluated and do not hide
        # the statements they contain
        els = [e for e in els if f.nodes[e]["k"] not in ("CXXCatchStmt", "CaseStmt", "DefaultStmt", "LabelStmt")]
        s = set(els)
        out = []
        for e in els:
            p = f.parent.get(e)
            sub = False
            while p is not None:
                if p in s:
                    sub = True
                    break
                p = f.parent.get(p)
            if not sub:
                out.append(e)
        return out

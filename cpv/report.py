"""Obligations, known findings, evidence files, exit codes."""
import hashlib
import json
import os
import sys
import time

VERIF = os.path.dirname(os.path.dirname(os.path.abspath(__file__)))
KNOWN = os.path.join(VERIF, "known_findings.json")


def load_known():
    if not os.path.exists(KNOWN):
        return {"findings": [], "fixed": []}
    with open(KNOWN) as f:
        return json.load(f)


class Run:
    def __init__(self, pid, tier, root, seed=0):
        self.pid = pid
        self.tier = tier
        self.root = root
        self.seed = seed
        self.t0 = time.time()
        self.obs = []
        self.floors = {}
        self.rules = {}
        self.assumptions = []
        self.units = set()
        self.functions = set()
        self.configs = ["default"]
        self.notes = []
        self.exhaustive_rules = set()
        self.broken = []
        self.not_decided = []

    # ---- recording ---------------------------------------------------------
    def rule(self, rid, text, floor=None, exhaustive=False):
        self.rules[rid] = text
        if floor is not None:
            self.floors[rid] = floor
        if exhaustive:
            self.exhaustive_rules.add(rid)

    def ob(self, rid, instance, site, ok, witness=None, what=None):
        """record one obligation. key identifies it independent of line numbers."""
        self.obs.append({"rule": rid, "instance": instance, "site": site, "ok": bool(ok),
                         "witness": witness, "what": what})
        return bool(ok)

    def analysed(self, f):
        self.functions.add(f.qn)
        self.units.add(f.tu)
        if not hasattr(self, "files"):
            self.files = set()
        self.files.add(f.file)

    def assume(self, text):
        if text not in self.assumptions:
            self.assumptions.append(text)

    def broke(self, text):
        self.broken.append(text)

    # ---- finishing -----------------------------------------------------------
    def key(self, o):
        return "%s|%s|%s" % (o["rule"], o["site"], o["instance"])

    def finish(self):
        known = load_known()
        listed = {}
        for k in known.get("findings", []):
            if k["property"] == self.pid:
                listed[k["key"]] = k
        counts = {}
        for o in self.obs:
            counts[o["rule"]] = counts.get(o["rule"], 0) + 1
        for rid, fl in self.floors.items():
            if counts.get(rid, 0) < fl:
                self.broken.append("rule %s matched %d instances, below the frozen floor %d (anchor vanished or extractor regressed)"
                                   % (rid, counts.get(rid, 0), fl))
        viol = [o for o in self.obs if not o["ok"]]
        new, old = [], []
        for o in viol:
            (old if self.key(o) in listed else new).append(o)
        evdir = os.environ.get("CPV_EVIDENCE_DIR") or os.path.join(VERIF, "evidence")
        os.makedirs(os.path.join(evdir, "replay"), exist_ok=True)
        lines = []
        for rid in sorted(self.rules):
            n = counts.get(rid, 0)
            bad = len([o for o in viol if o["rule"] == rid])
            lines.append("%s.%s: %d obligations, %d discharged%s  -- %s" % (self.pid, rid, n, n - bad,
                         (" (floor %d)" % self.floors[rid]) if rid in self.floors else "", self.rules[rid]))
        seen_known = set()
        for o in old:
            k = self.key(o)
            if k in seen_known:
                continue
            seen_known.add(k)
            lines.append("KNOWN-FINDING: property=%s %s [%s at %s] %s" % (self.pid, listed[k].get("what", ""), o["rule"], o["site"], o.get("what") or ""))
        replay_paths = []
        for i, o in enumerate(new):
            h = hashlib.sha256(self.key(o).encode()).hexdigest()[:10]
            rp = os.path.join(evdir, "replay", "%s-%s.json" % (self.pid, h))
            with open(rp, "w") as f:
                json.dump({"property": self.pid, "rule": o["rule"], "instance": o["instance"], "site": o["site"],
                           "key": self.key(o), "what": o.get("what"), "witness": o.get("witness"), "root": self.root,
                           "rule_text": self.rules.get(o["rule"], "")}, f, indent=1)
            replay_paths.append(rp)
            lines.append("  violated %s.%s at %s: %s :: %s" % (self.pid, o["rule"], o["site"], o["instance"], o.get("what") or ""))
            if o.get("witness"):
                w = o["witness"] if isinstance(o["witness"], str) else json.dumps(o["witness"])
                lines.append("    witness: %s" % w[:600])
            lines.append("VIOLATION property=%s replay=%s" % (self.pid, rp))
        unlisted_stale = [k for k in listed if k not in {self.key(o) for o in viol}]
        for k in unlisted_stale:
            lines.append("note: listed known finding no longer observed: %s" % k)
        wall = time.time() - self.t0
        samples = []
        per_rule_seen = {}
        for o in self.obs:
            c = per_rule_seen.get(o["rule"], 0)
            if c < 3 or not o["ok"]:
                per_rule_seen[o["rule"]] = c + 1
                s = {"rule": o["rule"], "instance": o["instance"], "site": o["site"], "verdict": "discharged" if o["ok"] else "violated"}
                if o.get("witness") is not None:
                    s["witness"] = o["witness"] if isinstance(o["witness"], (str, list, dict)) else str(o["witness"])
                if o.get("what"):
                    s["what"] = o["what"]
                samples.append(s)
        distinct = len({self.key(o) for o in self.obs if o.get("witness") is not None or True})
        ev = {
            "property_id": self.pid,
            "tier": self.tier,
            "seed": self.seed,
            "level": "other",
            "coverage": {
                "explanation": "Static analysis of %s's current source (clang 14 typed AST + CFG via cpv-extract; nothing is executed). "
                               "Rules applied: %s" % (self.root, "; ".join("%s: %s" % (r, self.rules[r]) for r in sorted(self.rules))),
                "obligations": len(self.obs),
                "discharged": len(self.obs) - len(viol),
                "evaluations": max(1, len(self.obs)),
                "distinct_nontrivial": distinct,
                "rule": "one obligation per (rule, site, instance) extracted from the code; distinct = distinct keys; every obligation inspects at least one concrete construct (call site, CFG path, table row, sibling pair)",
                "samples": samples[:60] if samples else [{"note": "no obligations"}],
                "per_rule": {r: {"obligations": counts.get(r, 0), "violated": len([o for o in viol if o["rule"] == r]),
                                 "floor": self.floors.get(r)} for r in sorted(self.rules)},
                "units_analysed": sorted(self.units),
                "functions_analysed": sorted(self.functions),
                "configurations": self.configs,
                "exhaustive": bool(self.exhaustive_rules),
                "exhaustive_rules": sorted(self.exhaustive_rules),
                "known_findings_reported": sorted(seen_known),
                "not_decided": self.not_decided,
                "analysis_broken": self.broken,
                "selftest_seeded_changes": getattr(self, "selftest", None),
            },
            "assumptions": self.assumptions,
            "wall_s": round(wall, 3),
            "violations": len(new),
        }
        with open(os.path.join(evdir, "%s.json" % self.pid), "w") as f:
            json.dump(ev, f, indent=1, sort_keys=False)
        for l in lines:
            print(l)
        for b in self.broken:
            print("ANALYSIS-BROKEN property=%s %s" % (self.pid, b))
        if new:
            return 1
        if self.broken:
            return 2
        print("OK property=%s tier=%s obligations=%d discharged=%d known_findings=%d wall=%.1fs" % (
            self.pid, self.tier, len(self.obs), len(self.obs) - len(viol), len(seen_known), wall))
        return 0

"""Normalised rendering of typed expressions and condition atoms."""
import json
from .model import CALL_KINDS, CAST_KINDS, TRANSPARENT

_OPNAMES = {"operator==": "==", "operator!=": "!=", "operator+": "+", "operator+=": "+=", "operator=": "=",
            "operator<": "<", "operator>": ">", "operator<=": "<=", "operator>=": ">=", "operator-": "-",
            "operator*": "*", "operator/": "/", "operator<<": "<<", "operator>>": ">>"}


def is_null(f, n):
    """expression is a null pointer constant / literal zero"""
    n0 = n
    while n is not None:
        k = n["k"]
        if k in ("CXXNullPtrLiteralExpr", "GNUNullExpr"):
            return True
        if k == "IntegerLiteral":
            return n.get("v") == 0
        if k in CAST_KINDS and n.get("ck") == "NullToPointer":
            return True
        if (k in TRANSPARENT or k in CAST_KINDS or k == "CXXDefaultArgExpr") and n.get("c"):
            n = n["c"][0]
            continue
        return False
    return False


def const_value(f, n):
    """integer constant value of an expression, or None"""
    if n is not None:
        f = n.get("_fn", f)
    while n is not None:
        if "cv" in n:
            v = n["cv"]
            return int(v) if not isinstance(v, bool) else int(v)
        k = n["k"]
        if k in ("IntegerLiteral", "CharacterLiteral"):
            return int(n["v"])
        if k == "CXXBoolLiteralExpr":
            return 1 if n["v"] else 0
        if (k in TRANSPARENT or k == "ImplicitCastExpr") and n.get("c"):
            n = n["c"][0]
            continue
        return None
    return None


def rx(f, n, keep_explicit_casts=False):
    """origin rendering: like render(), but single-assignment locals are replaced by their initialisers and
    explicit casts are dropped: `T* const tmp = get(); tmp->go(x)` reads `get()->go(x)`"""
    return render(f, n, keep_explicit_casts, subst=True)


def render(f, n, keep_explicit_casts=True, subst=False, _depth=0):
    if n is None:
        return "<null>"
    f = n.get("_fn", f)
    k = n["k"]
    R = lambda x: render(f, x, keep_explicit_casts, subst, _depth)
    if subst and k == "DeclRefExpr" and n.get("dk") == "Var" and not n.get("global") and _depth < 6:
        si = f.single_inits() if hasattr(f, "single_inits") else {}
        init = si.get(n.get("did"))
        if init is not None:
            t = render(f, init, keep_explicit_casts, subst, _depth + 1)
            # a SimpleString/record temporary built from one value reads as that value
            return t
    if k in TRANSPARENT or k == "CXXDefaultArgExpr" or k == "CXXDefaultInitExpr":
        return R(n["c"][0]) if n.get("c") else "<?>"
    if k == "ImplicitCastExpr":
        if n.get("ck") == "NullToPointer":
            return "NULL"
        return R(n["c"][0])
    if k in CAST_KINDS:
        if n.get("ck") == "NullToPointer":
            return "NULL"
        if keep_explicit_casts and n.get("ck") not in ("NoOp", "ToVoid"):
            return "(%s)%s" % (n.get("ct", "?"), R(n["c"][0]))
        if n.get("ck") == "ToVoid":
            return "(void)%s" % R(n["c"][0])
        return R(n["c"][0])
    if k == "DeclRefExpr":
        return n["name"]
    if k == "MemberExpr":
        base = f.node(n.get("base"))
        if base is None:
            return n["name"]
        b = f.strip(base, casts=True)
        if b is not None and b["k"] == "CXXThisExpr":
            return n["name"]
        return "%s%s%s" % (R(base), "->" if n.get("arrow") else ".", n["name"])
    if k == "CXXThisExpr":
        return "this"
    if k == "IntegerLiteral":
        return str(n.get("v"))
    if k == "CharacterLiteral":
        v = n.get("v", 0)
        return "'%s'" % (chr(v) if 32 <= v < 127 and chr(v) not in "'\\" else "\\x%02x" % v)
    if k == "FloatingLiteral":
        return repr(n.get("v"))
    if k == "StringLiteral":
        return json.dumps(n.get("v", ""))
    if k == "CXXBoolLiteralExpr":
        return "true" if n.get("v") else "false"
    if k in ("CXXNullPtrLiteralExpr", "GNUNullExpr"):
        return "NULL"
    if k == "BinaryOperator" or k == "CompoundAssignOperator":
        l, r = f.node(n.get("lhs")), f.node(n.get("rhs"))
        return "(%s %s %s)" % (R(l), n["op"], R(r))
    if k == "UnaryOperator":
        x = R(n["c"][0])
        return (x + n["op"]) if n.get("postfix") else (n["op"] + x)
    if k == "ArraySubscriptExpr":
        return "%s[%s]" % (R(f.node(n.get("base"))), R(f.node(n.get("idx"))))
    if k in ("ConditionalOperator", "BinaryConditionalOperator"):
        return "(%s ? %s : %s)" % (R(f.node(n.get("cond"))), R(f.node(n.get("then"))), R(f.node(n.get("else"))))
    if k == "UnaryExprOrTypeTraitExpr":
        if n.get("argt"):
            return "%s(%s)" % (n.get("trait", "sizeof"), n["argt"])
        return "%s(%s)" % (n.get("trait", "sizeof"), R(n["c"][0]) if n.get("c") else "?")
    if k == "CXXMemberCallExpr":
        fn = f.strip(f.node(n.get("fn")))
        name = n["callee"]["qn"].split("::")[-1] if n.get("callee") else (fn.get("name") if fn else "?")
        args = ", ".join(R(a) for a in f.args(n))
        obj = f.node(n.get("obj"))
        if obj is not None:
            o = f.strip(obj)
            if o is not None and o["k"] == "CXXThisExpr":
                return "%s(%s)" % (name, args)
            arrow = fn.get("arrow") if fn is not None and fn["k"] == "MemberExpr" else False
            return "%s%s%s(%s)" % (R(obj), "->" if arrow else ".", name, args)
        return "%s(%s)" % (name, args)
    if k == "CXXOperatorCallExpr":
        name = n["callee"]["qn"].split("::")[-1] if n.get("callee") else "operator?"
        a = f.args(n)
        if name in _OPNAMES and len(a) == 2:
            return "(%s %s %s)" % (R(a[0]), _OPNAMES[name], R(a[1]))
        if name == "operator[]" and len(a) == 2:
            return "%s[%s]" % (R(a[0]), R(a[1]))
        return "%s(%s)" % (name, ", ".join(R(x) for x in a))
    if k == "CallExpr":
        fn = f.node(n.get("fn"))
        if n.get("callee"):
            name = n["callee"]["qn"]
        else:
            name = R(fn)
        return "%s(%s)" % (name, ", ".join(R(a) for a in f.args(n)))
    if k in ("CXXConstructExpr", "CXXTemporaryObjectExpr"):
        a = f.args(n)
        cls = n["ctor"]["qn"].split("::")[0] if n.get("ctor") else n.get("ct", "?")
        if n.get("ctor"):
            cls = "::".join(n["ctor"]["qn"].split("::")[:-1])
        if len(a) == 1:
            at = a[0].get("ct", "")
            if at.replace("const ", "").strip() == n.get("ct", "").replace("const ", "").strip():
                return R(a[0])  # copy/move construction
        return "%s(%s)" % (cls, ", ".join(R(x) for x in a))
    if k == "CXXNewExpr":
        return "new %s%s(%s)" % (n.get("alloct", "?"), "[]" if n.get("array") else "", ", ".join(R(c) for c in n.get("c") or []))
    if k == "CXXDeleteExpr":
        return "delete%s %s" % ("[]" if n.get("array") else "", R(n["c"][0]) if n.get("c") else "?")
    if k == "CXXThrowExpr":
        return "throw %s" % (R(n["c"][0]) if n.get("c") else "")
    if k == "InitListExpr":
        return "{%s}" % ", ".join(R(c) for c in n.get("c") or [])
    if k == "ImplicitValueInitExpr":
        return "{}"
    if k == "ReturnStmt":
        return "return %s" % (R(f.node(n.get("value"))) if n.get("value") is not None else "")
    if k == "DeclStmt":
        return "; ".join("%s %s%s" % (d.get("ct", ""), d.get("name", ""), (" = " + R(d["init"])) if d.get("init") else "") for d in n.get("decls", []))
    if k == "StmtExpr":
        return "({...})"
    return "<%s>" % k


def _flip_rel(op):
    return {"<": ">", ">": "<", "<=": ">=", ">=": "<="}[op]


def atom_sub(f, n):
    """atom() with origin rendering (single-assignment locals replaced by their initialisers)"""
    return atom(f, n, subst=True)


def atom(f, n, subst=False):
    """normalise a branch condition into (key, polarity): the condition is true iff
    the atom `key` has truth value `polarity`."""
    if n is not None:
        f = n.get("_fn", f)
    if subst:
        # see through a condition that is just a single-assignment bool/pointer local
        x = f.strip(n, casts=True) if n is not None else None
        if x is not None and x["k"] == "DeclRefExpr" and x.get("dk") == "Var" and not x.get("global") and hasattr(f, "single_inits"):
            init = f.single_inits().get(x.get("did"))
            if init is not None:
                return atom(f, init, subst=True)
    rr = (lambda x: render(f, x, False, True)) if subst else (lambda x: render(f, x))
    pol = True
    while True:
        n = f.strip(n, casts=False)
        # strip implicit conversions to bool / integral promotions used in conditions
        while n is not None and n["k"] == "ImplicitCastExpr" and n.get("c"):
            n = f.strip(n["c"][0], casts=False)
        if n is None:
            return ("<null>", pol)
        if n["k"] == "UnaryOperator" and n.get("op") == "!":
            pol = not pol
            n = n["c"][0]
            continue
        if n["k"] == "BinaryOperator" and n.get("op") in ("==", "!="):
            l, r = f.node(n["lhs"]), f.node(n["rhs"])
            zl, zr = _is_zero(f, l), _is_zero(f, r)
            if zr and not zl:
                if n["op"] == "==":
                    pol = not pol
                n = l
                continue
            if zl and not zr:
                if n["op"] == "==":
                    pol = not pol
                n = r
                continue
            a, b = rr(l), rr(r)
            if b < a:
                a, b = b, a
            if n["op"] == "!=":
                pol = not pol
            return ("(%s == %s)" % (a, b), pol)
        if n["k"] == "BinaryOperator" and n.get("op") in ("<", ">", "<=", ">="):
            l, r = rr(f.node(n["lhs"])), rr(f.node(n["rhs"]))
            op = n["op"]
            if op in (">", "<="):
                l, r = r, l
                op = _flip_rel(op)
            # now op is < or >=
            if op == ">=":
                pol = not pol
            return ("(%s < %s)" % (l, r), pol)
        if n["k"] == "CXXOperatorCallExpr" and n.get("callee") and n["callee"]["qn"].split("::")[-1] in ("operator==", "operator!="):
            a = f.args(n)
            if len(a) == 2:
                x, y = rr(a[0]), rr(a[1])
                if y < x:
                    x, y = y, x
                if n["callee"]["qn"].endswith("operator!="):
                    pol = not pol
                return ("(%s == %s)" % (x, y), pol)
        return (rr(n), pol)


def _is_zero(f, n):
    if is_null(f, n):
        return True
    n = f.strip(n)
    if n is None:
        return False
    if n["k"] == "CXXBoolLiteralExpr":
        return n.get("v") is False
    if n["k"] == "CharacterLiteral":
        return n.get("v") == 0
    return False


def written_targets(f, n):
    """lvalues (rendered) written by element n itself (assignment, compound assignment, ++/--)"""
    f = n.get("_fn", f)
    k = n["k"]
    if k in ("BinaryOperator", "CompoundAssignOperator") and (n.get("op") == "=" or n.get("op", "").endswith("=") and n["op"] not in ("==", "!=", "<=", ">=")):
        return [render(f, f.node(n["lhs"]))]
    if k == "UnaryOperator" and n.get("op") in ("++", "--"):
        return [render(f, n["c"][0])]
    if k == "CXXOperatorCallExpr" and n.get("callee") and n["callee"]["qn"].split("::")[-1] in ("operator=", "operator+="):
        a = f.args(n)
        if a:
            return [render(f, a[0])]
    return []


import re
_TOK = re.compile(r"[A-Za-z_][A-Za-z_0-9]*")


def mentions(key, lvalue):
    """does atom key mention the written lvalue (token-wise for identifiers, substring for paths)"""
    if _TOK.fullmatch(lvalue):
        return lvalue in _TOK.findall(key)
    return lvalue in key


def render_stmt(f, n):
    """structural rendering of a statement (used for sibling comparison)"""
    if n is None:
        return ""
    k = n["k"]
    if k == "CompoundStmt":
        return "{ " + " ".join(render_stmt(f, c) for c in n.get("c") or []) + " }"
    if k == "IfStmt":
        s = "if (%s) %s" % (render(f, f.node(n.get("cond"))), render_stmt(f, f.node(n.get("then"))))
        if n.get("else") is not None:
            s += " else " + render_stmt(f, f.node(n.get("else")))
        return s
    if k == "WhileStmt":
        return "while (%s) %s" % (render(f, f.node(n.get("cond"))), render_stmt(f, f.node(n.get("body"))))
    if k == "DoStmt":
        return "do %s while (%s);" % (render_stmt(f, f.node(n.get("body"))), render(f, f.node(n.get("cond"))))
    if k == "ForStmt":
        return "for (%s; %s; %s) %s" % (render_stmt(f, f.node(n.get("init"))).rstrip(";"), render(f, f.node(n.get("cond"))) if n.get("cond") is not None else "",
                                         render(f, f.node(n.get("inc"))) if n.get("inc") is not None else "", render_stmt(f, f.node(n.get("body"))))
    if k == "ReturnStmt":
        return render(f, n) + ";"
    if k == "DeclStmt":
        return render(f, n) + ";"
    if k in ("BreakStmt", "ContinueStmt", "NullStmt"):
        return {"BreakStmt": "break;", "ContinueStmt": "continue;", "NullStmt": ";"}[k]
    if k == "CXXTryStmt":
        return "try " + " ".join(render_stmt(f, c) for c in n.get("c") or [])
    if k == "CXXCatchStmt":
        return "catch (%s) %s" % (n.get("caught"), render_stmt(f, f.node(n.get("body"))))
    if k == "SwitchStmt":
        return "switch (%s) %s" % (render(f, f.node(n.get("cond"))), render_stmt(f, f.node(n.get("body"))))
    if k == "CaseStmt":
        return "case %s: %s" % (render(f, f.node(n.get("lhs"))), render_stmt(f, f.node(n.get("sub"))))
    if k == "DefaultStmt":
        return "default: " + " ".join(render_stmt(f, c) for c in n.get("c") or [])
    return render(f, n) + ";"


def top_stmts(f):
    b = f.body
    if b is None:
        return []
    if b["k"] == "CompoundStmt":
        return list(b.get("c") or [])
    if b["k"] == "CXXTryStmt":
        return [b]
    return [b]

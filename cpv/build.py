"""Build context: compile database from cmake (configure only), fact extraction with
cpv-extract (one process per translation unit, cached by content hash)."""
import hashlib
import json
import os
import shlex
import subprocess
import sys
from concurrent.futures import ThreadPoolExecutor

VERIF = os.path.dirname(os.path.dirname(os.path.abspath(__file__)))
WORK = os.path.join(VERIF, "_work")
EXTRACT = os.path.join(WORK, "bin", "cpv-extract")
EXTRACT_SRC = os.path.join(VERIF, "tools", "cpv-extract.cc")


class AnalysisBroken(Exception):
    """The analysis itself could not be carried out (exit 2): never a pass, never a violation."""


def sha(*parts):
    h = hashlib.sha256()
    for p in parts:
        if isinstance(p, str):
            p = p.encode()
        h.update(p)
        h.update(b"\0")
    return h.hexdigest()


def _read(path):
    with open(path, "rb") as f:
        return f.read()


def ensure_extractor():
    """(Re)build the extractor when the binary is missing or older than its source."""
    if os.path.exists(EXTRACT) and os.path.getmtime(EXTRACT) >= os.path.getmtime(EXTRACT_SRC):
        return
    os.makedirs(os.path.dirname(EXTRACT), exist_ok=True)
    cxxflags = subprocess.check_output(["llvm-config-14", "--cxxflags"], text=True).split()
    cmd = ["clang++"] + cxxflags + ["-O1", "-fno-rtti", "-Wno-unused", EXTRACT_SRC, "-o", EXTRACT + ".tmp",
                                    "/usr/lib/llvm-14/lib/libclang-cpp.so.14", "/usr/lib/llvm-14/lib/libLLVM-14.so"]
    r = subprocess.run(cmd, capture_output=True, text=True)
    if r.returncode != 0:
        raise AnalysisBroken("cannot build cpv-extract: " + r.stderr[-2000:])
    os.replace(EXTRACT + ".tmp", EXTRACT)


def _cmake_inputs(root):
    out = []
    for base, dirs, files in os.walk(root):
        rel = os.path.relpath(base, root)
        top = rel.split(os.sep)[0]
        if top in ("_build", ".git", "build", "cpputest_build") or top.startswith("_build"):
            dirs[:] = []
            continue
        for fn in files:
            if fn == "CMakeLists.txt" or fn.endswith(".cmake") or fn.endswith(".cmake.in") or fn == "config.h.cmake" \
                    or fn.endswith(".in"):
                out.append(os.path.join(base, fn))
    return sorted(out)


def compile_db(root):
    """Configure-only cmake run; cached on the hash of every cmake input below root."""
    root = os.path.abspath(root)
    inputs = _cmake_inputs(root)
    # the set of source files matters too (cmake lists them explicitly, a missing one fails)
    key = sha(root, *[p + ":" + sha(_read(p)) for p in inputs])[:16]
    d = os.path.join(WORK, "cfg", key)
    dbfile = os.path.join(d, "compile_commands.json")
    if not os.path.exists(dbfile):
        os.makedirs(d, exist_ok=True)
        r = subprocess.run(["cmake", "-S", root, "-B", d, "-G", "Ninja", "-DCMAKE_EXPORT_COMPILE_COMMANDS=ON"],
                           capture_output=True, text=True)
        if r.returncode != 0 or not os.path.exists(dbfile):
            raise AnalysisBroken("cmake configure failed for %s: %s" % (root, (r.stdout + r.stderr)[-1500:]))
    with open(dbfile) as f:
        db = json.load(f)
    units = {}
    for e in db:
        f = os.path.abspath(os.path.join(e["directory"], e["file"]))
        if f not in units:
            units[f] = e
    return d, units


def _headers_hash(root):
    h = hashlib.sha256()
    for sub in ("include",):
        for base, dirs, files in os.walk(os.path.join(root, sub)):
            dirs.sort()
            for fn in sorted(files):
                p = os.path.join(base, fn)
                h.update(os.path.relpath(p, root).encode())
                h.update(_read(p))
    return h.hexdigest()


LIB_DIRS = ("src/CppUTest/", "src/CppUTestExt/", "src/Platforms/")


def select_units(root, units, scope="lib"):
    root = os.path.abspath(root)
    out = []
    for f in sorted(units):
        rel = os.path.relpath(f, root)
        if scope == "lib":
            if rel.startswith(LIB_DIRS):
                out.append(f)
        elif scope == "all":
            if not rel.startswith(".."):
                out.append(f)
    return out


def extract(root, scope="lib", extra_flags=(), only=None, jobs=16):
    """Return the list of per-unit fact dicts for the units of `scope` under `root`.
    extra_flags: additional compiler flags (configuration variants of the thorough tier).
    only: optional list of unit paths relative to root."""
    root = os.path.abspath(root)
    ensure_extractor()
    dbdir, units = compile_db(root)
    files = select_units(root, units, scope)
    if only is not None:
        want = set(os.path.join(root, o) for o in only)
        files = [f for f in units if f in want]
        missing = want - set(files)
        if missing:
            raise AnalysisBroken("units not in the compilation database: %s" % sorted(missing))
    if not files:
        raise AnalysisBroken("no translation units selected under %s" % root)
    hh = _headers_hash(root)
    # headers generated by the configure step (config macros) are part of what a unit sees
    gen = hashlib.sha256()
    for base, dirs, fns in os.walk(dbdir):
        dirs.sort()
        for fn in sorted(fns):
            if fn.endswith((".h", ".hpp")):
                gen.update(os.path.relpath(os.path.join(base, fn), dbdir).encode())
                gen.update(_read(os.path.join(base, fn)))
    hh = sha(hh, gen.hexdigest())
    exth = sha(_read(EXTRACT_SRC))
    results = {}

    def one(f):
        cmd = units[f]["command"] if "command" in units[f] else " ".join(shlex.quote(a) for a in units[f]["arguments"])
        # the facts of a unit are root-relative, so scratch copies of the tree share them: the key is the unit's path inside
        # the tree, its content, the headers' content and the compile command with root and build directory normalised
        key = sha(os.path.relpath(f, root), _read(f), hh, cmd.replace(dbdir, "$DB").replace(root, "$ROOT"), " ".join(extra_flags), exth)[:24]
        outp = os.path.join(WORK, "facts", key + ".json")
        if not os.path.exists(outp):
            os.makedirs(os.path.dirname(outp), exist_ok=True)
            args = [EXTRACT, "-p", dbdir, "--root=" + root, "--extra-arg=-Wno-everything", "--extra-arg=-std=gnu++17"]
            for x in extra_flags:
                args.append("--extra-arg=" + x)
            args += ["-o", outp + ".tmp", f]
            r = subprocess.run(args, capture_output=True, text=True)
            if r.returncode != 0 or not os.path.exists(outp + ".tmp"):
                try:
                    os.unlink(outp + ".tmp")
                except OSError:
                    pass
                raise AnalysisBroken("extraction failed for %s: %s" % (f, (r.stderr or r.stdout)[-1500:]))
            os.replace(outp + ".tmp", outp)
        with open(outp) as fh:
            d = json.load(fh)
        if d.get("errors"):
            raise AnalysisBroken("compile errors in %s" % f)
        return f, d

    with ThreadPoolExecutor(max_workers=jobs) as ex:
        for f, d in ex.map(one, files):
            results[f] = d
    return [results[f] for f in files]


def extract_file(root, path, flags, jobs=1):
    """Extract a stand-alone file (witness TU / positive example) that is not in the compilation
    database; compiled with the flags of a library unit plus `flags`. Returns fact dict."""
    root = os.path.abspath(root)
    ensure_extractor()
    dbdir, units = compile_db(root)
    hh = _headers_hash(root)
    exth = sha(_read(EXTRACT_SRC))
    key = sha(root, path, _read(path), hh, " ".join(flags), exth)[:24]
    outp = os.path.join(WORK, "facts", key + ".json")
    if not os.path.exists(outp):
        os.makedirs(os.path.dirname(outp), exist_ok=True)
        wroot = os.path.dirname(os.path.abspath(path))
        args = [EXTRACT, "--root=" + wroot, "-o", outp + ".tmp", path, "--", "clang++", "-std=gnu++17", "-Wno-everything",
                "-I" + os.path.join(root, "include"), "-I" + dbdir, "-DHAVE_CONFIG_H"] + list(flags)
        r = subprocess.run(args, capture_output=True, text=True)
        if r.returncode != 0 or not os.path.exists(outp + ".tmp"):
            raise AnalysisBroken("extraction failed for %s: %s" % (path, (r.stderr or r.stdout)[-1500:]))
        os.replace(outp + ".tmp", outp)
    with open(outp) as fh:
        d = json.load(fh)
    if d.get("errors"):
        raise AnalysisBroken("compile errors in %s" % path)
    return d

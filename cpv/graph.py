"""Call-graph reachability with witness paths (REACH) and who-may-call / who-may-write (WHO)."""
import collections
from .model import CALL_KINDS
from .expr import render, written_targets


def reach(prog, start_mns, is_sink_call, cut=None, max_depth=40):
    """BFS over the resolved call graph from the functions `start_mns`.
    is_sink_call(f, call) -> label or None for every call node (also external callees).
    cut(f, call, (mn, qn, how)) -> True to not descend through that edge.
    Returns list of (label, path) where path = [(function qn, call rendering, file:line), ...]."""
    found = []
    seen = set()
    q = collections.deque()
    for mn in start_mns:
        q.append((mn, []))
        seen.add(mn)
    while q:
        mn, path = q.popleft()
        f = prog.functions.get(mn)
        if f is None:
            continue
        if len(path) > max_depth:
            continue
        for c in f.calls():
            lab = is_sink_call(f, c)
            step = (f.qn, render(f, c)[:120], f.loc(c))
            if lab:
                found.append((lab, path + [step]))
                continue
            for tgt in prog.call_targets(f, c):
                if cut and cut(f, c, tgt):
                    continue
                if tgt[0] not in seen and tgt[0] in prog.functions:
                    seen.add(tgt[0])
                    q.append((tgt[0], path + [step]))
        # implicit destructor calls
        for b in f.blocks.values():
            for e in b["el"]:
                if isinstance(e, dict) and e.get("mn") and e["mn"] in prog.functions and e["mn"] not in seen:
                    seen.add(e["mn"])
                    q.append((e["mn"], path + [(f.qn, "~" + e.get("qn", ""), f.file)]))
    return found


def field_writers(prog, field_qn):
    """functions containing a write to the member field (assignment, ++/--, compound assignment,
    or constructor initialiser). Returns list of (Function, node or init dict)."""
    out = []
    cls, name = field_qn.rsplit("::", 1)
    for f in prog.functions.values():
        if f.kind == "ctor" and f.cls == cls:
            for i in f.d.get("inits", []) or []:
                if i.get("field") == name and i.get("written"):
                    out.append((f, i))
        for n in f.walk():
            tgt = None
            if n["k"] in ("BinaryOperator", "CompoundAssignOperator") and n.get("op", "").endswith("=") and n["op"] not in ("==", "!=", "<=", ">="):
                tgt = f.node(n.get("lhs"))
            elif n["k"] == "UnaryOperator" and n.get("op") in ("++", "--"):
                tgt = n["c"][0]
            if tgt is None:
                continue
            t = f.strip(tgt)
            while t is not None and t["k"] == "ArraySubscriptExpr":
                t = f.strip(f.node(t.get("base")))
            if t is not None and t["k"] == "MemberExpr" and t.get("qn") == field_qn:
                out.append((f, n))
    return out


def callers_of(prog, qn):
    out = []
    for f in prog.functions.values():
        for c in f.calls():
            nm = prog.callee_name(f, c)
            if nm == qn:
                out.append((f, c))
    return out

"""Thorough-tier self-test of a property's checker: every stored seeded change that the check is known to detect
(seeded/MATRIX.json) is applied to a scratch copy of the CURRENT /repo tree and the rules are re-evaluated on the
copy; the check must still report a VIOLATION. A rule set that silently lost its teeth fails as analysis-broken.
Scratch copies live under $TMPDIR and are removed before returning."""
import json
import os
import shutil
import subprocess
import tempfile

VERIF = os.path.dirname(os.path.dirname(os.path.abspath(__file__)))


def run(pid, root, run_obj):
    mp = os.path.join(VERIF, "seeded", "MATRIX.json")
    if not os.path.exists(mp):
        return
    matrix = json.load(open(mp))
    expected = sorted(s for s, r in matrix.items() if pid in r.get("fired", {}))
    undecidable = sorted(s for s, r in matrix.items() if pid in r.get("broken", []) and s.split("-")[0] == pid)
    base = os.path.join(tempfile.gettempdir(), "cpv-selftest-%s" % pid)
    scratch = os.path.join(base, "root")
    results = {}
    try:
        for seed in expected + undecidable:
            d = os.path.join(VERIF, "seeded", seed)
            patch = os.path.join(d, "patch.rebased.diff") if os.path.exists(os.path.join(d, "patch.rebased.diff")) else os.path.join(d, "patch.diff")
            os.makedirs(scratch, exist_ok=True)
            subprocess.check_call(["rsync", "-a", "--delete", "--exclude", "_build", "--exclude", ".git", "--exclude", "build", root.rstrip("/") + "/", scratch + "/"])
            r = subprocess.run(["patch", "-p1", "-s", "-d", scratch, "-i", patch], capture_output=True, text=True)
            if r.returncode != 0:
                results[seed] = "patch does not apply to the current tree (skipped)"
                continue
            env = dict(os.environ, CPV_EVIDENCE_DIR=os.path.join(base, "evidence"), VERIF_TIER="quick")
            rr = subprocess.run([os.path.join(VERIF, "check"), pid, "--tier", "quick", "--root", scratch], capture_output=True, text=True, env=env)
            results[seed] = {0: "NOT DETECTED", 1: "detected", 2: "analysis-broken"}.get(rr.returncode, "exit %d" % rr.returncode)
            if seed in expected and rr.returncode != 1:
                run_obj.broke("self-test: seeded change %s is no longer reported by the %s check (exit %d)" % (seed, pid, rr.returncode))
            if seed in undecidable and rr.returncode == 0:
                run_obj.broke("self-test: seeded change %s is now silently accepted by the %s check" % (seed, pid))
    finally:
        shutil.rmtree(base, ignore_errors=True)
    run_obj.selftest = results
    run_obj.configs.append("self-test: %d stored seeded changes re-applied to a scratch copy of the current tree, %d detected" % (len(results), sum(1 for v in results.values() if v == "detected")))

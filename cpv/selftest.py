"""Thorough-tier self-test of a property's checker: every stored seeded change that the check is known to detect
(seeded/MATRIX.json) is applied to a scratch copy of the CURRENT /repo tree and the rules are re-evaluated on the
copy; the check must still report a VIOLATION. A rule set that silently lost its teeth fails as analysis-broken.
Scratch copies live under $TMPDIR and are removed before returning."""
import json
import os
import shutil
import subprocess
import tempfile

VERIF = os.path.dirname(os.path.dirname(os.path.abspath(__file__)))


def run(pid, root, run_obj):
    mp = os.path.join(VERIF, "seeded", "MATRIX.json")
    if not os.path.exists(mp):
        return
    matrix = json.load(open(mp))
    expected = sorted(s for s, r in matrix.items() if pid in r.get("fired", {}))
    undecidable = sorted(s for s, r in matrix.items() if pid in r.get("broken", []) and s.split("-")[0] == pid)
    base = os.path.join(tempfile.gettempdir(), "cpv-selftest-%s" % pid)
    scratch = os.path.join(base, "root")
    results = {}
    try:
        for seed in expected + undecidable:
            d = os.path.join(VERIF, "seeded", seed)
            patch = os.path.join(d, "patch.rebased.diff") if os.path.exists(os.path.join(d, "patch.rebased.diff")) else os.path.join(d, "patch.diff")
            os.makedirs(scratch, exist_ok=True)
            subprocess.check_call(["rsync", "-a", "--delete", "--exclude", "_build", "--exclude", ".git", "--exclude", "build", root.rstrip("/") + "/", scratch + "/"])
            r = subprocess.run(["patch", "-p1", "-s", "-d", scratch, "-i", patch], capture_output=True, text=True)
            if r.returncode != 0:
                results[seed] = "patch does not apply to the current tree (skipped)"
                continue
            env = dict(os.environ, CPV_EVIDENCE_DIR=os.path.join(base, "evidence"), VERIF_TIER="quick")
            rr = subprocess.run([os.path.join(VERIF, "check"), pid, "--tier", "quick", "--root", scratch], capture_output=True, text=True, env=env)
            results[seed] = {0: "NOT DETECTED", 1: "detected", 2: "analysis-broken"}.get(rr.returncode, "exit %d" % rr.returncode)
            if seed in expected and rr.returncode != 1:
                run_obj.broke("self-test: seeded change %s is no longer reported by the %s check (exit %d)" % (seed, pid, rr.returncode))
            if seed in undecidable and rr.returncode == 0:
                run_obj.broke("self-test: seeded change %s is now silently accepted by the %s check" % (seed, pid))
        # the other direction: stored behaviour-preserving refactorings must not raise an alarm
        rdir = os.path.join(VERIF, "refactors")
        refs = sorted(d for d in os.listdir(rdir) if os.path.exists(os.path.join(rdir, d, "patch.diff"))) if os.path.isdir(rdir) else []
        # only refactorings that touch a file this check looked at can change its verdict (headers count: same basename)
        mine = {os.path.splitext(os.path.basename(x))[0] for x in getattr(run_obj, "files", set())}

        def touches(ref):
            for line in open(os.path.join(rdir, ref, "patch.diff"), errors="replace"):
                if line.startswith("+++ b/") and os.path.splitext(os.path.basename(line[6:].strip()))[0] in mine:
                    return True
            return False
        refs = [r_ for r_ in refs if r_.startswith(pid + "-") or touches(r_)]

        def one(ref):
            sc = os.path.join(base, "ref-" + ref)
            os.makedirs(sc, exist_ok=True)
            subprocess.check_call(["rsync", "-a", "--delete", "--exclude", "_build", "--exclude", ".git", "--exclude", "build", root.rstrip("/") + "/", sc + "/"])
            r_ = subprocess.run(["patch", "-p1", "-s", "-d", sc, "-i", os.path.join(rdir, ref, "patch.diff")], capture_output=True, text=True)
            if r_.returncode != 0:
                shutil.rmtree(sc, ignore_errors=True)
                return ref, None
            env_ = dict(os.environ, CPV_EVIDENCE_DIR=os.path.join(base, "evidence-" + ref), VERIF_TIER="quick")
            rr_ = subprocess.run([os.path.join(VERIF, "check"), pid, "--tier", "quick", "--root", sc], capture_output=True, text=True, env=env_)
            shutil.rmtree(sc, ignore_errors=True)
            return ref, rr_.returncode
        from concurrent.futures import ThreadPoolExecutor
        silent = undecided = 0
        with ThreadPoolExecutor(max_workers=8) as ex:
            for ref, rc in ex.map(one, refs):
                if rc is None:
                    continue
                if rc == 1:
                    run_obj.broke("self-test: the %s check raises a false alarm on the behaviour-preserving refactoring %s" % (pid, ref))
                elif rc == 0:
                    silent += 1
                else:
                    undecided += 1
        ref_summary = "self-test: %d stored behaviour-preserving refactorings applied to scratch copies, %d silent, %d undecided, 0 alarms expected" % (len(refs), silent, undecided)
    finally:
        shutil.rmtree(base, ignore_errors=True)
    run_obj.configs.append(ref_summary)
    run_obj.selftest = results
    run_obj.configs.append("self-test: %d stored seeded changes re-applied to a scratch copy of the current tree, %d detected" % (len(results), sum(1 for v in results.values() if v == "detected")))

"""Path-sensitive engines over the clang CFG: bounded path enumeration with consistent
condition atoms (SKELETON), call counting with callee summaries (PATHCOUNT), ordering."""
import collections
from .expr import atom, render, written_targets, mentions, const_value
from .model import CALL_KINDS
from .build import AnalysisBroken

MANY = 99


class Path:
    __slots__ = ("decisions", "trace", "end", "ret", "blocks")

    def __init__(self, decisions, trace, end, ret, blocks):
        self.decisions = decisions   # list of (key, polarity, block id, cond node id)
        self.trace = trace           # list of CFG elements in execution order: node ids or dtor/init dicts
        self.end = end               # 'return' | 'noreturn' | 'throw' | 'stop'
        self.ret = ret               # ReturnStmt node or None
        self.blocks = blocks

    def val(self):
        d = {}
        for k, p, _, _ in self.decisions:
            d[k] = p
        return d

    def describe(self, f):
        parts = []
        for k, p, b, _ in self.decisions:
            parts.append(("" if p else "!") + k)
        return " && ".join(parts) if parts else "<unconditional>"


def enclosing_try(f, n):
    """innermost CXXTryStmt whose *try block* contains node n (None if none)."""
    child = n
    for a in f.ancestors(n):
        if a["k"] == "CXXTryStmt" and a.get("body") == child["id"]:
            return a
        child = a
    return None


def block_try(f, b):
    for e in f.blocks[b]["el"]:
        if isinstance(e, int):
            return enclosing_try(f, f.nodes[e])
    t = f.blocks[b].get("term")
    if t is not None and t in f.nodes:
        return enclosing_try(f, f.nodes[t])
    return None


def handler_blocks(f, trynode):
    """CFG blocks that start the handlers of the given CXXTryStmt, in handler order"""
    out = []
    for b in f.blocks.values():
        if b.get("termk") == "CXXTryStmt" and b.get("term") == trynode["id"]:
            for s in b["succ"]:
                if s is not None and f.blocks[s].get("labelk") == "CXXCatchStmt":
                    out.append(s)
    return out


NO_INLINE = set()          # qualified names of static functions that must stay opaque
DEFAULT_INLINE = None     # set by the Context: resolver (f, call node) -> Function to splice, or None
_INLINE_DEPTH = [0]


def enumerate_paths(f, stop=None, may_throw=None, max_visits=2, limit=200000, invalidate_on_call=None,
                    start_block=None, assume=None, follow_const=True, decide=None, end_blocks=None, init_val=None,
                    inline="default"):
    """Enumerate entry->end paths of f's CFG.
    stop(f,node) -> True if executing this element ends the path ('stop': e.g. a call that never returns).
    may_throw(f,node) -> True if the element may raise a C++ exception (forks to the handlers of the
    innermost enclosing try, or ends the path with 'throw' when there is none).
    Branch conditions are normalised to atoms; an atom keeps its value along a path until one of the
    lvalues it mentions is written."""
    paths = []
    start = f.entry if start_block is None else start_block
    count = [0]
    resolver = DEFAULT_INLINE if inline == "default" else inline
    callee_paths = {}

    def inlined(g):
        if g.mn not in callee_paths:
            _INLINE_DEPTH[0] += 1
            try:
                callee_paths[g.mn] = enumerate_paths(g, stop=stop, may_throw=may_throw, max_visits=max_visits, limit=2000,
                                                     follow_const=follow_const, inline=resolver if _INLINE_DEPTH[0] < 3 else None)
            except AnalysisBroken:
                callee_paths[g.mn] = None
            finally:
                _INLINE_DEPTH[0] -= 1
        return callee_paths[g.mn]

    def run(b, val, decisions, trace, visits, blocks, resume_at=None):
        while True:
            if count[0] > limit:
                raise AnalysisBroken("path explosion in %s" % f.qn)
            if resume_at is None:
                if end_blocks and b in end_blocks and blocks:
                    count[0] += 1
                    paths.append(Path(decisions, list(trace), "endblock", None, blocks + [b]))
                    return
                visits = dict(visits)
                visits[b] = visits.get(b, 0) + 1
                if visits[b] > max_visits:
                    return
                blocks = blocks + [b]
            blk = f.blocks[b]
            trace = list(trace)
            val = dict(val)
            ended = False
            first = resume_at or 0
            resume_at = None
            for ei in range(first, len(blk["el"])):
                e = blk["el"][ei]
                trace.append(e)
                if isinstance(e, int):
                    n = f.nodes[e]
                    for w in written_targets(f, n):
                        for k in [k for k in val if mentions(k, w)]:
                            del val[k]
                    if n["k"] == "DeclStmt":
                        for d in n.get("decls", []):
                            for k in [k for k in val if mentions(k, d.get("name", "\0"))]:
                                del val[k]
                            if d.get("init") is not None and d.get("ct") in ("bool", "int", "unsigned int", "unsigned long", "long"):
                                cvv = const_value(f, d["init"])
                                if cvv is not None:
                                    val[d["name"]] = bool(cvv)
                    if n["k"] == "BinaryOperator" and n.get("op") == "=":
                        lhs = f.strip(f.node(n["lhs"]))
                        if lhs is not None and lhs["k"] == "DeclRefExpr" and not lhs.get("global"):
                            cvv = const_value(f, f.node(n["rhs"]))
                            if cvv is not None:
                                val[lhs["name"]] = bool(cvv)
                    if invalidate_on_call and n["k"] in CALL_KINDS:
                        for k in [k for k in val if invalidate_on_call(f, n, k)]:
                            del val[k]
                    if may_throw and may_throw(f, n):
                        t = enclosing_try(f, n)
                        if t is None:
                            count[0] += 1
                            paths.append(Path(list(decisions) + [("throws@%s" % render(f, n), True, b, e)], list(trace), "throw", None, blocks))
                        else:
                            for hb in handler_blocks(f, t):
                                h = f.blocks[hb]
                                caught = f.nodes[h["label"]].get("caught") if h.get("label") is not None else "?"
                                run(hb, val, decisions + [("throws@%s->catch(%s)" % (render(f, n), caught), True, b, e)], trace, visits, blocks)
                    if stop and stop(f, n):
                        count[0] += 1
                        paths.append(Path(decisions, trace, "stop", None, blocks))
                        ended = True
                        break
                    if resolver is not None and n["k"] in CALL_KINDS:
                        g = resolver(f, n)
                        cps = inlined(g) if g is not None and g is not f else None
                        if cps:
                            forked = False
                            if len(cps) == 1 and cps[0].end == "return":
                                cp = cps[0]
                                trace.extend(_as_nodes(g, cp.trace))
                                decisions = decisions + [("%s::%s" % (g.name, k), v, b, e) for k, v, _, _ in cp.decisions]
                            else:
                                for cp in cps:
                                    t2 = trace + _as_nodes(g, cp.trace)
                                    d2 = decisions + [("%s::%s" % (g.name, k), v, b, e) for k, v, _, _ in cp.decisions]
                                    if cp.end in ("return", "endblock"):
                                        run(b, val, d2, t2, visits, blocks, resume_at=ei + 1)
                                    elif cp.end == "throw":
                                        t = enclosing_try(f, n)
                                        if t is None:
                                            count[0] += 1
                                            paths.append(Path(d2, t2, "throw", None, blocks))
                                        else:
                                            for hb in handler_blocks(f, t):
                                                run(hb, val, d2, t2, visits, blocks)
                                    else:
                                        count[0] += 1
                                        paths.append(Path(d2, t2, cp.end, None, blocks))
                                return
                    if n["k"] == "CXXThrowExpr":
                        ended = True
                        t = enclosing_try(f, n)
                        if t is None:
                            count[0] += 1
                            paths.append(Path(decisions, trace, "throw", None, blocks))
                        else:
                            for hb in handler_blocks(f, t):
                                run(hb, val, decisions, trace, visits, blocks)
                        break
            if ended:
                return
            if blk.get("noreturn"):
                count[0] += 1
                paths.append(Path(decisions, trace, "noreturn", None, blocks))
                return
            succ = blk["succ"]
            if b == f.exit or not succ:
                count[0] += 1
                paths.append(Path(decisions, trace, "return", _last_return(f, trace), blocks))
                return
            termk = blk.get("termk")
            if termk == "CXXTryStmt":
                return  # dispatch blocks are only entered through exceptional edges
            if (len(succ) == 1 or blk.get("cond") is None and termk != "SwitchStmt") and not blk.get("tempdtorbranch"):
                nxt = [s for s in succ if s is not None]
                if not nxt:
                    return
                if len(nxt) == 1:
                    b = nxt[0]
                    continue
                for s in nxt:
                    run(s, val, decisions, trace, visits, blocks)
                return
            if termk == "SwitchStmt":
                cn = f.nodes[blk["cond"]]
                key = "switch:" + render(f, cn)
                for s in succ:
                    if s is None:
                        continue
                    lab = f.blocks[s]
                    if lab.get("labelk") == "CaseStmt":
                        cv = const_value(f, f.node(f.nodes[lab["label"]].get("lhs")))
                        tag = "case %s" % cv
                    elif lab.get("labelk") == "DefaultStmt":
                        tag = "default"
                    else:
                        tag = "nocase"
                    if key in val and val[key] != tag:
                        continue
                    v2 = dict(val)
                    v2[key] = tag
                    run(s, v2, decisions + [(key, tag, b, blk["cond"])], trace, visits, blocks)
                return
            if blk.get("tempdtorbranch"):
                # the temporary is destroyed iff it was constructed on this path
                c = blk.get("cond")
                if c is None:
                    c = blk.get("term")
                if c is not None and len(succ) == 2:
                    made = c in trace
                    b = succ[0] if made else succ[1]
                    if b is None:
                        return
                    continue
                for s in succ:
                    if s is not None:
                        run(s, val, decisions, trace, visits, blocks)
                return
            cn = f.nodes[blk["cond"]]
            t, fl = succ[0], succ[1]
            known = eval_cond(f, cn, val, decide, follow_const)
            if known is not None:
                b = t if known else fl
                if b is None:
                    return
                if decide is not None:
                    decisions = decisions + [("decided:" + render(f, cn), bool(known), blk["id"], blk["cond"])]
                continue
            # fork on the first undecided leaf (short-circuit order) until the whole condition is decided
            for v2, d2, outcome in resolve(f, cn, val, decisions, b, blk["cond"], decide, follow_const, assume):
                s2 = t if outcome else fl
                if s2 is None:
                    continue
                run(s2, v2, d2, trace, visits, blocks)
            return

    import sys
    old = sys.getrecursionlimit()
    sys.setrecursionlimit(max(old, 10000))
    try:
        run(start, dict(init_val or {}), [], [], {}, [])
    finally:
        sys.setrecursionlimit(old)
    return paths


def _leaves(f, n):
    n0 = f.strip(n, casts=False)
    while n0 is not None and n0["k"] == "ImplicitCastExpr" and n0.get("c"):
        n0 = f.strip(n0["c"][0], casts=False)
    if n0 is None:
        return []
    if n0["k"] == "UnaryOperator" and n0.get("op") == "!":
        return _leaves(f, n0["c"][0])
    if n0["k"] == "BinaryOperator" and n0.get("op") in ("&&", "||"):
        return _leaves(f, f.node(n0["lhs"])) + _leaves(f, f.node(n0["rhs"]))
    return [n0]


def resolve(f, cn, val, decisions, b, cid, decide, follow_const, assume):
    """expand undecided leaves of a (possibly compound) condition in evaluation order.
    yields (valuation, decisions, truth of the whole condition)"""
    out = []

    def go(val, decisions, depth):
        known = eval_cond(f, cn, val, decide, follow_const)
        if known is not None:
            out.append((val, decisions, known))
            return
        if depth > 12:
            key, pol = atom(f, cn)
            for truth in (True, False):
                v2 = dict(val)
                v2[key] = pol if truth else (not pol)
                out.append((v2, decisions + [(key, v2[key], b, cid)], truth))
            return
        for leaf in _leaves(f, cn):
            if eval_cond(f, leaf, val, decide, follow_const) is None:
                key, pol = atom(f, leaf)
                if assume is not None and key in assume:
                    v2 = dict(val)
                    v2[key] = assume[key]
                    go(v2, decisions, depth + 1)
                    return
                for truth in (True, False):
                    v2 = dict(val)
                    v2[key] = pol if truth else (not pol)
                    go(v2, decisions + [(key, v2[key], b, leaf["id"])], depth + 1)
                return
        # no undecided leaf but still unknown (should not happen): fork on the whole expression
        key, pol = atom(f, cn)
        for truth in (True, False):
            v2 = dict(val)
            v2[key] = pol if truth else (not pol)
            out.append((v2, decisions + [(key, v2[key], b, cid)], truth))
    go(val, decisions, 0)
    return out


def _as_nodes(g, trace):
    """elements of a callee path as node dicts (so that they stay meaningful inside the caller's trace)"""
    out = []
    for e in trace:
        if isinstance(e, int):
            out.append(g.nodes[e])
        else:
            out.append(e)
    return out


def trace_nodes(f, p):
    """all AST nodes executed along path p, including nodes of spliced (inlined) callees"""
    out = []
    for e in p.trace:
        if isinstance(e, int):
            out.append(f.nodes[e])
        elif isinstance(e, dict) and "k" in e:
            out.append(e)
    return out


def eval_cond(f, cn, val, decide=None, follow_const=True):
    """three-valued evaluation of a branch condition from what is known on the path"""
    n = f.strip(cn, casts=False)
    while n is not None and n["k"] == "ImplicitCastExpr" and n.get("c"):
        n = f.strip(n["c"][0], casts=False)
    if n is None:
        return None
    if follow_const:
        cv = const_value(f, n)
        if cv is not None:
            return bool(cv)
    if n["k"] == "UnaryOperator" and n.get("op") == "!":
        r = eval_cond(f, n["c"][0], val, decide, follow_const)
        return None if r is None else (not r)
    if n["k"] == "BinaryOperator" and n.get("op") in ("&&", "||"):
        a = eval_cond(f, f.node(n["lhs"]), val, decide, follow_const)
        b = eval_cond(f, f.node(n["rhs"]), val, decide, follow_const)
        if n["op"] == "&&":
            if a is False or b is False:
                return False
            if a is True and b is True:
                return True
            return None
        if a is True or b is True:
            return True
        if a is False and b is False:
            return False
        return None
    if decide is not None:
        d = decide(f, n)
        if d is not None:
            return bool(d)
    key, pol = atom(f, n)
    if key in val:
        return val[key] == pol
    return None


def _last_return(f, trace):
    for e in reversed(trace):
        if isinstance(e, int):
            n = f.nodes[e]
            if n["k"] == "ReturnStmt":
                return n
    return None


def loop_blocks(f):
    """blocks that lie on a CFG cycle"""
    # Tarjan SCC
    index = {}
    low = {}
    onst = set()
    st = []
    out = set()
    idx = [0]
    import sys
    sys.setrecursionlimit(max(sys.getrecursionlimit(), 10000))

    def sc(v):
        index[v] = low[v] = idx[0]
        idx[0] += 1
        st.append(v)
        onst.add(v)
        for w in f.succs(v):
            if w not in index:
                sc(w)
                low[v] = min(low[v], low[w])
            elif w in onst:
                low[v] = min(low[v], index[w])
        if low[v] == index[v]:
            comp = []
            while True:
                w = st.pop()
                onst.discard(w)
                comp.append(w)
                if w == v:
                    break
            if len(comp) > 1 or v in f.succs(v):
                out.update(comp)
    for b in f.blocks:
        if b not in index:
            sc(b)
    return out


class Counter:
    """PATHCOUNT: interval of the number of calls to a target set on the normal-return paths of a
    function, with callee summaries (bottom-up, memoised, recursion => [0, MANY])."""

    def __init__(self, prog, is_target, opaque=None, terminators=None, may_throw=None):
        self.prog = prog
        self.is_target = is_target      # (f, call node, targets) -> bool
        self.opaque = opaque or (lambda qn: False)
        self.terminators = terminators or (lambda f, n: False)
        self.may_throw = may_throw
        self.memo = {}
        self.active = set()

    def elem_count(self, f, n):
        """(min,max) contribution of executing element n (a call) including its callees"""
        if n["k"] not in CALL_KINDS and n["k"] not in ("CXXConstructExpr", "CXXTemporaryObjectExpr"):
            return (0, 0)
        tg = self.prog.call_targets(f, n)
        if self.is_target(f, n, tg):
            return (1, 1)
        lo, hi = None, None
        for mn, qn, how in tg:
            g = self.prog.functions.get(mn)
            if g is None or self.opaque(qn):
                c = (0, 0)
            else:
                c = self.summary(g)[:2]
            lo = c[0] if lo is None else min(lo, c[0])
            hi = c[1] if hi is None else max(hi, c[1])
        if lo is None:
            return (0, 0)
        return (lo, hi)

    def summary(self, g):
        """(min, max, witness_min_path, witness_max_path) over normal-return paths of g"""
        if g.mn in self.memo:
            return self.memo[g.mn]
        if g.mn in self.active:
            return (0, MANY, None, None)
        self.active.add(g.mn)
        try:
            res = self.count_paths(g)
        finally:
            self.active.discard(g.mn)
        los = [r[0] for r in res["return_counts"]]
        his = [r[1] for r in res["return_counts"]]
        out = (min(los) if los else 0, max(his) if his else 0, None, None)
        self.memo[g.mn] = out
        return out

    def count_paths(self, g, ends=("return",)):
        loops = loop_blocks(g)
        paths = enumerate_paths(g, stop=self.terminators, may_throw=self.may_throw)
        rc = []
        detail = []
        for p in paths:
            lo = hi = 0
            for e in p.trace:
                if isinstance(e, int):
                    n = g.nodes[e]
                    a, b = self.elem_count(g, n)
                    if b > 0:
                        w = g.where(e)
                        if w and w[0] in loops:
                            b = MANY
                            a = 0
                    lo += a
                    hi = min(MANY, hi + b)
            detail.append((p, lo, hi))
            if p.end in ends:
                rc.append((lo, hi))
        return {"return": [], "return_counts": rc, "detail": detail}

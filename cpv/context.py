"""Per-run context: lazily extracted program models for the configurations a rule asks for."""
import os
from . import build
from .model import Program


class Context:
    def __init__(self, root, tier, run):
        self.root = os.path.abspath(root)
        self.tier = tier
        self.run = run
        self._progs = {}

    @property
    def thorough(self):
        return self.tier == "thorough"

    def program(self, scope="lib", flags=(), only=None):
        key = (scope, tuple(flags), tuple(only) if only else None)
        if key not in self._progs:
            tus = build.extract(self.root, scope=scope, extra_flags=tuple(flags), only=only)
            self._progs[key] = Program(tus, self.root)
            prog = self._progs[key]
            prog._run = self.run        # functions looked up, folded or inlined are recorded as analysed (evidence)
            from . import paths

            callers = {}

            def callers_of(mn, prog=prog):
                if not callers:
                    for h in prog.functions.values():
                        for c in h.calls():
                            cc = c.get("callee")
                            if cc and cc.get("dispatch") == "direct":
                                callers.setdefault(cc["mn"], set()).add(h.mn)
                return callers.get(mn, set())

            def resolver(f, call, prog=prog):
                """helpers that are spliced into their caller's paths: file-static functions, and non-virtual member
                functions of the caller's own class in the same file that have at most two callers (extracted helpers)"""
                c = call.get("callee")
                if not c or c.get("dispatch") != "direct":
                    return None
                g = prog.functions.get(c["mn"])
                if g is None or g is f or g.file != f.file or g.qn in paths.NO_INLINE:
                    return None
                if g.kind == "function" and g.d.get("static"):
                    return g
                if g.kind == "method" and g.cls == f.cls and not g.d.get("virtual") and len(callers_of(g.mn)) <= 2 and f.mn in callers_of(g.mn):
                    return g
                return None
            paths.DEFAULT_INLINE = resolver
        return self._progs[key]

    def witness(self, path, flags=()):
        d = build.extract_file(self.root, path, list(flags))
        w = Program([d], self.root)
        w.partial = True        # a single stand-alone unit: functions it only declares are defined elsewhere
        return w

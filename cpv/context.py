"""Per-run context: lazily extracted program models for the configurations a rule asks for."""
import os
from . import build
from .model import Program


class Context:
    def __init__(self, root, tier, run):
        self.root = os.path.abspath(root)
        self.tier = tier
        self.run = run
        self._progs = {}

    @property
    def thorough(self):
        return self.tier == "thorough"

    def program(self, scope="lib", flags=(), only=None):
        key = (scope, tuple(flags), tuple(only) if only else None)
        if key not in self._progs:
            tus = build.extract(self.root, scope=scope, extra_flags=tuple(flags), only=only)
            self._progs[key] = Program(tus, self.root)
            prog = self._progs[key]
            from . import paths

            def resolver(f, call, prog=prog):
                c = call.get("callee")
                if not c or c.get("dispatch") != "direct":
                    return None
                g = prog.functions.get(c["mn"])
                if g is None or g is f or g.file != f.file or not g.d.get("static") or g.kind != "function":
                    return None
                if g.qn in paths.NO_INLINE:
                    return None
                return g
            paths.DEFAULT_INLINE = resolver
        return self._progs[key]

    def witness(self, path, flags=()):
        d = build.extract_file(self.root, path, list(flags))
        return Program([d], self.root)

"""RANGE: integer type ranges, cast chains and value-preservation of conversions."""
from .model import CAST_KINDS, TRANSPARENT


def type_range(prog, ct):
    t = prog.types.get(ct)
    if t is None and ct.startswith("const "):
        t = prog.types.get(ct[6:])
    if t is None:
        return None
    k = t.get("k")
    if k == "bool":
        return (0, 1)
    if k in ("int", "enum") and "bits" in t:
        b = t["bits"]
        if t.get("signed"):
            return (-(1 << (b - 1)), (1 << (b - 1)) - 1)
        return (0, (1 << b) - 1)
    return None


def cast_chain(f, n):
    """descend through parens and casts: returns (leaf node, [(cast kind, from ct, to ct, explicit)] inner->outer)"""
    chain = []
    while n is not None:
        k = n["k"]
        if k in TRANSPARENT and n.get("c"):
            n = n["c"][0]
            continue
        if k in CAST_KINDS and n.get("c"):
            inner = n["c"][0]
            chain.append((n.get("ck"), inner.get("ct"), n.get("ct"), bool(n.get("explicit"))))
            n = inner
            continue
        break
    chain.reverse()
    return n, chain


def apply_chain(prog, rng, chain):
    """push a mathematical range through a cast chain. Returns (ok, range after, first lossy cast or None)."""
    lo, hi = rng
    for ck, fr, to, expl in chain:
        if ck in ("LValueToRValue", "NoOp"):
            continue
        if ck in ("IntegralCast", "IntegralToBoolean", "BooleanToSignedIntegral"):
            tr = type_range(prog, to)
            if tr is None:
                return False, (lo, hi), (ck, fr, to, expl)
            if lo < tr[0] or hi > tr[1]:
                return False, (lo, hi), (ck, fr, to, expl)
            continue
        return False, (lo, hi), (ck, fr, to, expl)
    return True, (lo, hi), None
